#!/usr/bin/env python3
"""Write seeded/<ID>-3|4/meta.json for the fifth wave of seeded changes from the
verification outputs left by tools/verifyseed.sh (demo.with/without.txt, checks.txt)."""
import json, os, re, sys

D = {
 "C01-10": ("findElemInStr checks int index bounds against the byte length", "a str with multi-byte characters indexed past its rune count but within its byte count: host panic"),
 "C01-11": ("iterHandler.Next passes nil instead of empty kwargs to `next`", "a chain over an object whose `_iter` returns an object with a Pangaea-defined `next`: nil dereference"),
 "C02-10": ("listElem action hoists `*` over a following property chain", "`[*a.b]`, `x[*a.b]`: the element groups as *(a.b)"),
 "C02-11": ("MULTILINE_ADD_CHAIN dropped while merging two precedence lines", "prefix operator applied to the receiver of a continuation-line chain starting with &/~/="),
 "C03-10": ("the REPL evaluates each line in a copied env and adopts it only on success", "a function written on one REPL line, a variable it reads reassigned on a later line"),
 "C03-11": ("evalAssign skips the write when the name already yields the very same object", "`x := x` / `flag := true` inside a body (same object as the outer binding), a closure escapes, the outer variable is reassigned"),
 "C04-10": ("findProxyLiteral drops the isMissing check", "literal / variable call whose receiver or element defines `_missing`"),
 "C04-11": ("** expansion compares non-scalar keys only with pairs stored before that map", "list chain with a map argument where two collected results have equal non-scalar keys"),
 "C05-10": ("builtInSendProp passes (name, recv, args…) to `_missing`", "a value wrapped by try whose chain has a user `_missing`, name absent everywhere"),
 "C05-11": ("evalArgs reuses the first ** operand's pair map", "`f(**first, **second)` then look-ups on first for names only second owns"),
 "C06-10": ("findElemInMap moves the matched non-scalar pair to the front", "a map with ≥ 2 non-scalar keys, a look-up, then an order-sensitive look at the map"),
 "C06-11": ("assignArgsToEnv adds the callee's defaults into the call's kwargs object", "one chain call `[a, b]@m(k: 0)` whose callees declare different defaults and keep `\\_`"),
 "C07-10": ("relative import caches the module before checking that its evaluation failed", "a module whose top level raises part-way, imported again after the first failure was caught"),
 "C07-11": ("REPL multi-line blocks are evaluated statement by statement without stopping on an error", "a block in `multi` mode in which a non-last statement raises"),
 "C08-10": ("evalLiteralCall evaluates the func literal before the receiver", "a literal call whose literal has a default keyword parameter with an effect"),
 "C08-11": ("parseJSONNum reports out-of-range ints; parseJSONMap returns the first error in Go-map order", "a JSON object with ≥ 2 members holding different out-of-range integers"),
 "C09-10": ("native Map#digest becomes `(.A + pairs).M`", "a map built by a list chain / digest / keyBy whose pairs contain two ==-equal non-scalar keys"),
 "C09-11": ("existsNonHashableKey skips keys of another runtime type", "two non-scalar keys that `==` calls equal but whose runtime kinds differ (`[1].bear({})` next to `[1]`)"),
 "C10-10": ("builtInCallProp memoises prop look-up for Int/Float receivers by (type, name)", "an Int descendant overriding an operator is the first receiver of that operator in the process"),
 "C10-11": ("Comparable `<=`/`>=` rewritten as `< || ==`", "numerically equal ints with different prototypes (`true + true <= 2`)"),
 "C11-10": ("evalRange caches range literals whose bounds look constant (incl. `-n`)", "one slice site `a[-n:]` executed twice with different n"),
 "C11-11": ("findElemInStr skips utf8.RuneError (also a genuine U+FFFD)", "a string that contains U+FFFD"),
 "C12-10": ("prefix `!` fast path for maps counts only scalar keys", "`!m` for a map whose keys are all non-scalar"),
 "C12-11": ("evalJumpIfStmt asks the condition's B before dispatching, the per-jump functions ask again", "a guard condition whose user-defined B is stateful / has an effect"),
 "C13-10": ("evalProp does not fall back to `_missing` for names starting with `_`", "a try chain whose step name begins with an underscore"),
 "C13-11": ("EitherErr#or calls a function default", "a failed Either whose `or` default is a function value"),
 "C14-10": ("literal list chain treats the block's StopIterErr like the iterator's", "a list chain over an iterator whose block steps a second, shorter iterator"),
 "C14-11": ("property access hands out a copy of an iterator-valued prop", "an iterator kept in an object property and stepped more than once through it"),
 "C15-10": ("one-statement bodies are evaluated by a fast path that ignores DeferObj", "a function whose whole body is `defer X` (plain or guarded)"),
 "C15-11": ("deferred expressions are evaluated in an enclosed env", "a deferred expression that uses `\\1`, `\\0`, `\\name` or a receiver-less chain"),
 "C16-10": ("MULTILINE_ADD_CHAIN MAIN_CHAIN `(`expr`)` action drops the chain argument", "a continuation-line chain with an additional mark and a chain argument (`|~$(x)f`)"),
 "C16-11": ("comment sub-pattern becomes `#.*`", "source whose line breaks are lone CRs with a comment followed by more code"),
 "C17-10": ("raw-string action collapses CR LF to LF", "a raw string literal containing CR LF"),
 "C17-11": ("privatePattern loses the `[!?]?` suffix", "a private suffixed name (`_done?`) used as a symbol"),
 "C18-10": ("Str#<=> compares code points instead of bytes", "two different strs containing bytes that are not valid UTF-8"),
 "C18-11": ("GetSymHash samples strs longer than 64 bytes (length, first and last 32 bytes)", "two equally long strs > 64 bytes that differ only in the middle"),
 "C19-10": ("Str#match memoises results (incl. the receiver's proto) process-wide by (text, pattern)", "the same text and pattern matched on a plain str by an earlier program, on a Str descendant by a later one"),
 "C19-11": ("the http client becomes one package-level client with a cookie jar", "an earlier program's request is answered with Set-Cookie; a later program requests the same host"),
 "C20-10": ("GetSymHash does not keep strs > 128 bytes in the table and checks strTable without the lock", "one evaluation hashing a long str while another interns a fresh symbol"),
 "C20-11": ("unsynchronised cache of compiled regex patterns in Str props", "two evaluations inside regex-backed Str props, one with a pattern not compiled before"),
}

root = '/verif/seeded'
for sid, (change, needs) in sorted(D.items()):
    d = os.path.join(root, sid)
    if not os.path.isdir(d):
        print('missing', sid); continue
    prop = sid.split('-')[0]
    rd = lambda f: open(os.path.join(d, f)).read() if os.path.exists(os.path.join(d, f)) else ''
    checks = rd('checks.txt').strip()
    caught = sorted(set(m.group(1) for m in re.finditer(r'^(C\d\d) exit=1 violations=[1-9]', checks, re.M)))
    note = {}
    old = os.path.join(d, 'meta.json')
    if os.path.exists(old):
        note = {k: v for k, v in json.load(open(old)).items() if k in ('note', 'strengthening')}
    meta = {
        "id": sid, "breaks_property": prop, "change": change, "needs_to_manifest": needs,
        "source": "fresh sub-agent (fifth wave) given only the property text and a scratch worktree; independently of /verif",
        "confirmed": {
            "in": "scratch worktree /tmp/w5-%s (removed afterwards)" % prop,
            "builds": True,
            "existing_suite": "go test -vet=off -count=1 ./... minus props/modules/http/builtin (fixed port 50000), and `pangaea test tests`: pass",
            "demo_with_change": rd('demo.with.txt')[-700:],
            "demo_without_change": rd('demo.without.txt')[-300:],
        },
        "checks_run": "tools/tryseed.sh seeded/%s/patch.diff <IDs>  (git -C /repo apply; ./check <ID> quick; git -C /repo checkout -- .)" % sid,
        "result": checks,
        "caught_by": caught,
    }
    meta.update(note)
    json.dump(meta, open(old, 'w'), indent=1, ensure_ascii=False)
    print(sid, 'caught_by', caught)
