#!/usr/bin/env python3
"""Write seeded/<ID>-3|4/meta.json for the second wave of seeded changes from the
verification outputs left by tools/verifyseed.sh (demo.with/without.txt, checks.txt)."""
import json, os, re, sys

D = {
 "C01-3": ("parser ErrMsg: the caret line slices Source.Line[:col] without a bound", "a syntax error after a multi-line backquote string: panic inside the parser's recover handler"),
 "C01-4": ("evaluator _evalStmts: `continue` after registering a defer", "a defer as the last statement of a block: the internal DeferObj escapes as the block's value (host panic at the CLI)"),
 "C02-3": ("parser.go.y `**` action rewrites a negative int-literal base", "`-2 ** 2` and `(-2) ** 2` parse as -(2 ** 2)"),
 "C02-4": ("parser.go.y: if-else gets a new lowest precedence level", "`a if b else c if d` nests to the right"),
 "C03-3": ("object.Env.Get memoises values found in outer frames", "a closure two or more frames below a variable that is reassigned afterwards reads the stale value"),
 "C03-4": ("evalCallArgs merges `**` kwargs without recomputing the key list", "`\\_` keys/values/items/iteration omit kwargs that came from `**` unpacking"),
 "C04-3": ("chain evaluation: iterOf shortcut uses an iterator-literal receiver itself", "a list/reduce chain on an iterator variable consumes it (second chain on the same variable sees the rest)"),
 "C04-4": ("prop-call lonely middleware compares the receiver with BuiltInNil by identity", "`Nil.new`/nil descendants are not skipped by `&.` in property-call form"),
 "C05-3": ("findPropMiddleware prepends the prop name into the args slice in place", "list chain through `_missing` with 3 arguments (cap > len): later elements see corrupted args"),
 "C05-4": ("object.ChildPanObjPtr returns src when proto is Obj", "`Obj.bear(o)` / `{}.bro(o)` return o itself instead of a child of the receiver"),
 "C06-3": ("Int#// floor fix-up decrements the result object in place", "`-1 // 2` turns the shared 0 into -1 for the rest of the process"),
 "C06-4": ("valRange writes the default step into the range it normalises", "a stored range `(1:5)` prints `(1:5:1)` after being used as an index"),
 "C07-3": ("guarded defer: an error raised by the guard condition is dropped", "`defer f() if raise-ing-cond`: the error disappears and the function returns normally"),
 "C07-4": ("literal/var reduce chain treats any iterator error as end of iteration", "an iterator that raises ValueErr mid-way: `$` chains finish with the partial accumulator"),
 "C08-3": ("`nil&.f(args)` returns before evaluating arguments and chain argument", "side effects / errors in arguments of a lonely call on nil are skipped"),
 "C08-4": ("map literal `%{**obj}` ranges the Go map again", "objects with >= 2 keys: key order of the map depends on hash-table layout"),
 "C09-3": ("PanFloat.Hash rounds to 1e-9", "floats closer than 1e-9 collapse into one map/obj-dedup key"),
 "C09-4": ("evalObj `**` merge lets a later duplicate override a nil-valued first occurrence", "`{a: nil, **{a: 1}}` yields a: 1"),
 "C10-3": ("Int#** uses the exact path only when the float result exceeds 2^53", "negative bases with odd exponents lose exactness"),
 "C10-4": ("Int#% floor fix-up without the remainder != 0 test", "`-6 % 3` gives 3"),
 "C11-3": ("valRange iterates by count computed with truncating division", "negative steps with non-divisible distance: `[0,1,2,3,4][::-2]` drops/adds an element"),
 "C11-4": ("string indexing `single-byte fast path` bounded by MaxLatin1", "`\"café\"[3]` returns a broken byte"),
 "C12-3": ("Obj#! tests `B == false` instead of not-true", "a user B returning a non-bool: `!x` disagrees with `if x`"),
 "C12-4": ("isTruthy fast path: prop-less *PanObj values are falsy", "`1.bear`, `Flag.bear` are falsy in if/guards but truthy through B"),
 "C13-3": ("builtInSendProp passes the prop name after the args to `_missing`", "wrapped call of a prop served by `_missing` receives shifted arguments"),
 "C13-4": ("Either: `err?: m{!.val?}`", "a successful nil result reports err? == true"),
 "C14-3": ("InjectRecur skips when `recur` is already visible", "nested iterator literals: the inner recur re-enters the outer iterator"),
 "C14-4": ("copiedIterFromIter returns the iterator itself for parameter-less literals", "iterators keeping state in `\\`: a copy advances the original"),
 "C15-3": ("an iterator step that ends in an error drops the defers it reached", "`defer` registered inside an iterator body before a raise never runs"),
 "C15-4": ("guarded defer registers only if the condition is exactly true", "truthy non-bool guard (`defer f() if 1`): deferred call never runs"),
 "C16-3": ("lexer keepChainRet pattern built from the raw `ret` pattern", "a comment containing `|.` is lexed as a chain continuation"),
 "C16-4": ("runscript.ReadFile reads through bufio.Scanner", "a source line of >= 64 KiB is truncated; the CLI exits 0 having run a prefix"),
 "C17-3": ("0x/0o/0b literals strip the prefix with TrimLeft", "`0x0`, `0b0`, `0o0…` lose leading zero digits and are rejected"),
 "C17-4": ("hand-rolled unquote re-encodes \\x80+/octal escapes and non-ASCII bytes", "`\"あ\"` and `\"café\"` literals become mojibake"),
 "C18-3": ("Float#== compares by Hash", "0.0 == -0.0 is false although <=> says equal"),
 "C18-4": ("Int#!= fast path ignores the prototype", "descendant ints with equal payload: == and != are both false"),
 "C19-3": ("evaluator parseSrc memoised by source position", "a later program with the same source name and position shows the earlier program's line in its stack trace"),
 "C19-4": ("`invite!` of a standard module injects into env.Global()", "names of an invited module stay visible to later programs of the process"),
 "C20-3": ("one-entry memo in readSymHash written under the read lock", "concurrent look-ups of already interned names return the hash of another name"),
 "C20-4": ("unsynchronised key cache map in parseJSONMap", "concurrent JSON decoding: concurrent map writes / data race"),
}

root = '/verif/seeded'
for sid, (change, needs) in sorted(D.items()):
    d = os.path.join(root, sid)
    if not os.path.isdir(d):
        print('missing', sid); continue
    prop = sid.split('-')[0]
    rd = lambda f: open(os.path.join(d, f)).read() if os.path.exists(os.path.join(d, f)) else ''
    checks = rd('checks.txt').strip()
    caught = sorted(set(m.group(1) for m in re.finditer(r'^(C\d\d) exit=1 violations=[1-9]', checks, re.M)))
    note = {}
    old = os.path.join(d, 'meta.json')
    if os.path.exists(old):
        note = {k: v for k, v in json.load(open(old)).items() if k in ('note', 'strengthening')}
    meta = {
        "id": sid, "breaks_property": prop, "change": change, "needs_to_manifest": needs,
        "source": "fresh sub-agent (second wave) given only the property text and a scratch worktree; independently of /verif",
        "confirmed": {
            "in": "scratch worktree /tmp/w2-%s (removed afterwards)" % prop,
            "builds": True,
            "existing_suite": "go test -vet=off -count=1 ./... minus props/modules/http/builtin (fixed port 50000), and `pangaea test tests`: pass",
            "demo_with_change": rd('demo.with.txt')[-700:],
            "demo_without_change": rd('demo.without.txt')[-300:],
        },
        "checks_run": "tools/tryseed.sh seeded/%s/patch.diff <IDs>  (git -C /repo apply; ./check <ID> quick; git -C /repo checkout -- .)" % sid,
        "result": checks,
        "caught_by": caught,
    }
    meta.update(note)
    json.dump(meta, open(old, 'w'), indent=1, ensure_ascii=False)
    print(sid, 'caught_by', caught)
