#!/bin/sh
# tools/allseeds.sh [ID-prefix…]  run the target quick check against every stored seeded change; rewrites checks.txt
cd /verif || exit 2
for d in seeded/*/; do
  s=$(basename "$d"); id=${s%-*}
  if [ $# -gt 0 ]; then m=0; for p in "$@"; do case $s in $p*) m=1;; esac; done; [ $m = 1 ] || continue; fi
  extra=""
  [ -f "$d/extra_checks" ] && extra=$(cat "$d/extra_checks")
  printf '%s: ' "$s"
  tools/tryseed.sh "/verif/$d/patch.diff" $id $extra | tee "$d/checks.txt" | cut -c1-200 | tr '\n' ' '
  echo
done
