#!/usr/bin/env python3
"""Write seeded/<ID>-12|13/meta.json for the sixth wave of seeded changes from the
verification outputs left by tools/verifyseed.sh (demo.with/without.txt, checks.txt)."""
import json, os, re, sys

D = {
 "C01-12": ("inviteRelative restores _PANGAEA_SOURCE_PATH unconditionally (a Go nil when there was none)", "a relative invite! at the top level of a one-liner / REPL (no source path), followed by another relative invite!/import: nil dereference"),
 "C01-13": ("Range#new copies its arguments into a fixed [3] array", "Range.new (or a descendant) called with four or more positional arguments: index out of range"),
 "C02-12": ("comparison level split: `== != === !==` below `<=> < <= > >=`", "an equality operator directly followed by a relational one without parentheses"),
 "C02-13": ("`%left OR` / `%left AND` become `%right`", "two or more of the same short-circuit operator in a row"),
 "C03-12": ("recur builds the next step's frame with NewCopiedEnv(iter.Env)", "an iterator body that reads a free variable and later assigns a same-named local, or a recur with fewer arguments than the previous step"),
 "C03-13": ("every passed keyword is also bound as a plain variable of the call", "an undeclared keyword named like a positional parameter or like a free variable the body reads"),
 "C04-12": ("property-call list chain digests its chain argument only when something was collected", "`@(arg)prop` whose receiver is empty or whose calls all answer nil"),
 "C04-13": ("thoughtful chain in literal / variable form no longer swallows NameErr", "`~.` / `~@` literal or variable call whose callee raises a NameErr"),
 "C05-12": ("lonely chain tests TraceProtoOfNil(recv) and hands the receiver back", "`&.` / `&@` on an object descended from nil / Nil"),
 "C05-13": ("Int#bear on a descendant of an int literal creates a child of the literal", "bear / bro on a descendant of an int literal, then inherited names are looked up"),
 "C06-12": ("compObjs sorts the receiver's own Keys slice in place", "an obj with ≥ 2 keys as the left operand of ==, then keys/values/items/iteration"),
 "C06-13": ("compMaps deletes matched pairs from an alias of the right operand's pair list", "== between maps with ≥ 2 non-scalar keys, the right operand used afterwards"),
 "C07-12": ("evalVarCall checks `f` instead of the chain argument for an error", "a raise in the chain argument of a variable call (`xs$(arg)^f`, `xs@(arg)^f`)"),
 "C07-13": ("prefix `!` fast path negates isTruthy(right) before the operand's error check", "a raise inside the operand of prefix `!`"),
 "C08-12": ("evalVarCall evaluates the chain argument only for @ and $ chains", "a scalar-chain variable call whose chain argument has an effect"),
 "C08-13": ("evalMapPair checks the value's and the key's error after evaluating both", "a map pair whose value raises and whose key has an effect"),
 "C09-12": ("findElemInMap replaces the index by TraceProtoOfInt/Str(index)", "`m[true]` / `m[false]` on a map holding bool and int keys"),
 "C09-13": ("GetSymHash inlines FNV-1a over `range str` (rune starts only)", "two non-ASCII strs of equal rune count differing only in continuation bytes used as keys / names"),
 "C10-12": ("Int#-% overflow guard promotes to Float when the sign did not flip (true for 0)", "`-x` where x is a zero that comes from a variable or expression"),
 "C10-13": ("Int#// floor fix-up tests `res < 0`", "operands of opposite sign with |a| < |b|"),
 "C11-12": ("valRange's overflow guard breaks before collecting the current element", "a positive step near MaxInt64 with a start ≥ 1"),
 "C11-13": ("strRange passes the byte length as the sequence size", "a str with a multi-byte character sliced with a negative bound or a step below -1"),
 "C12-12": ("canShortCut looks B up with builtInSendProp (falls back to `_missing`)", "an object without B in its chain but with `_missing` as the left operand of && / ||"),
 "C12-13": ("evalJumpIfReturn returns early when the guard's runtime type is nil", "a Nil descendant made with new whose prototype overrides B, as the guard of return"),
 "C13-12": ("EitherErr#catch tests kindOf? instead of type ==", "catch / ignore given an ancestor type while the held error is of a derived type"),
 "C13-13": ("evalLiteralCall passes its middlewares in swapped order", "a literal-call step applied to Eithers through a list chain"),
 "C14-12": ("prop-call reduce chain breaks on any error of next and checks the wrong err afterwards", "`it$(init)prop` / sum over an iterator literal whose step raises something other than StopIterErr"),
 "C14-13": ("evalJumpIfYield evaluates the value before looking at the guard", "a guarded yield whose value steps another iterator, at and after the stop"),
 "C15-12": ("guarded defer is dispatched before the guard's error check", "`defer X if C` where evaluating C raises"),
 "C15-13": ("keepNilLiteralCallListChainMiddleware no longer returns an element's error", "a nested call failing inside a strict list chain (`xs=@{...}`, `xs=@^f`)"),
 "C16-12": ("import / invite! refuse files whose first 512 bytes are not valid UTF-8", "a module with a multi-byte character straddling byte offset 512"),
 "C16-13": ("RunSource replaces CR LF by LF before parsing", "a script (file or -e) containing a raw string that spans a CR LF line break"),
 "C17-12": ("prefixed int literals parsed with ParseUint and cast", "a 0x/0o/0b literal in [2^63, 2^64)"),
 "C17-13": ("simplexer reads its input lazily in 4096-byte chunks", "a single literal token longer than about 4 KiB"),
 "C18-12": ("Comparable#between? rewritten on top of clip", "inverted bounds with self equal to the upper one (`5.between?(7, 5)`)"),
 "C18-13": ("Str#== uses checkStrInfixArgs (nil counts as \"\")", "the empty str (or an empty Str descendant) compared with nil"),
 "C19-12": ("compObjs sorts the receiver's own Keys slice in place", "an earlier program compares a built-in object with itself, a later one lists its props"),
 "C19-13": ("symbols get serial ids in order of first registration", "an earlier program first uses key names in another order; a later one compares containers whose elements' == has an effect"),
 "C20-12": ("new SymHash2Name reads strTable without the lock (http header/query conversion)", "a handler answering with a headers obj while another evaluation interns a fresh symbol"),
 "C20-13": ("Str#eval caches parsed programs in an unsynchronised map", "two evaluations inside Str#eval at the same moment, one on a source not seen before"),
}

root = '/verif/seeded'
for sid, (change, needs) in sorted(D.items()):
    d = os.path.join(root, sid)
    if not os.path.isdir(d):
        print('missing', sid); continue
    prop = sid.split('-')[0]
    rd = lambda f: open(os.path.join(d, f)).read() if os.path.exists(os.path.join(d, f)) else ''
    checks = rd('checks.txt').strip()
    caught = sorted(set(m.group(1) for m in re.finditer(r'^(C\d\d) exit=1 violations=[1-9]', checks, re.M)))
    note = {}
    old = os.path.join(d, 'meta.json')
    if os.path.exists(old):
        note = {k: v for k, v in json.load(open(old)).items() if k in ('note', 'strengthening')}
    meta = {
        "id": sid, "breaks_property": prop, "change": change, "needs_to_manifest": needs,
        "source": "fresh sub-agent (sixth wave) given only the property text and a scratch worktree; independently of /verif",
        "confirmed": {
            "in": "scratch worktree /tmp/w6-%s (removed afterwards)" % prop,
            "builds": True,
            "existing_suite": "go test -vet=off -count=1 ./... minus props/modules/http/builtin (fixed port 50000), and `pangaea test tests`: pass",
            "demo_with_change": rd('demo.with.txt')[-700:],
            "demo_without_change": rd('demo.without.txt')[-300:],
        },
        "checks_run": "tools/tryseed.sh seeded/%s/patch.diff <IDs>  (git -C /repo apply; ./check <ID> quick; git -C /repo checkout -- .)" % sid,
        "result": checks,
        "caught_by": caught,
    }
    meta.update(note)
    json.dump(meta, open(old, 'w'), indent=1, ensure_ascii=False)
    print(sid, 'caught_by', caught)
