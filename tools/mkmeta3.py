#!/usr/bin/env python3
"""Write seeded/<ID>-3|4/meta.json for the third wave of seeded changes from the
verification outputs left by tools/verifyseed.sh (demo.with/without.txt, checks.txt)."""
import json, os, re, sys

D = {
 "C01-5": ("props/arr_props.go Arr#O stores the original key object instead of its str", "`[[strDescendant, v]].O` expanded with ** into a Pangaea-defined function: host panic in assignArgsToEnv"),
 "C01-6": ("evaluator/index.go valRange preallocates with (stop-start)/step+1", "a slice that runs against its step direction by two or more steps (`xs[3:1]`): makeslice panic"),
 "C02-5": ("parser.go.y: ADD_CHAIN loses its precedence (`%left MAIN_CHAIN`)", "prefix operator in front of `&.`/`~.`/`=.` chains: `-a&.b` groups as -(a&.b)"),
 "C02-6": ("parser.go.y: RIGHT_ASSIGN merged into the right-associative assign level", "`a := 1 => b`, `a += 1 => b` group to the right"),
 "C03-5": ("evaluator/eval_func.go caches the func wrapper (incl. evaluated kwarg defaults) per literal", "the same literal evaluated twice with a keyword default that depends on the enclosing call"),
 "C03-6": ("evaluator/iternew.go: Iter#new encloses the caller's env", "an iterator literal written in one scope and new-ed from another that has same-named variables"),
 "C04-5": ("native/Obj.pangaea Obj#digest merges {**pairs.O, **self}", "list chain with a non-empty obj argument whose keys collide with collected keys"),
 "C04-6": ("parser.go.y: multi-line `|` chain with additional context and argument drops the context", "`recv\n|~$(x)f`, `|=@(x)f`, `|&@(x)f`"),
 "C05-5": ("native/Obj.pangaea bro: `.proto.bear(o || self)`", "`x.bro({})` (an empty obj is falsy) copies x's own props"),
 "C05-6": ("evaluator/index.go: symbol-index fallback starts at the traced arr/int/str", "`o['name]` on a descendant (with own props) of an arr/int/str literal"),
 "C06-5": ("appendStackTrace extends an existing trace in place + raise of a wrapper no longer copies", "a stored caught error re-raised twice: the stored value's report grows"),
 "C06-6": ("literal-call reduce chain reuses one [acc, elem] array for all steps", "a one-parameter step function that keeps the pair it received"),
 "C07-5": ("evalPropCall checks the chain argument's error after evaluating the call arguments", "raising chain argument plus call arguments with effects / errors"),
 "C07-6": ("native/Iterable.pangaea chain: `.abandon` → `.val`", "an iterable that raises a non-StopIterErr mid-way, consumed through chain/append/prepend"),
 "C08-5": ("evalObj skips a pair whose bare-identifier key is already present", "duplicate bare key whose later value has a side effect"),
 "C08-6": ("evalArgs merges ** expansions by plain map assignment", "two ** operands sharing a key in one call: the last wins"),
 "C09-5": ("object/obj.go keyHashes sorts by Inspect() text", "keys `name` and `name!` (or name + space) in one object"),
 "C09-6": ("evalObj reuses the first ** operand's pair map when the literal has no pairs yet", "`{**a, **b}` then another use of a"),
 "C10-5": ("Int#/ shortcut float64(self/other) for divisible operands", "min / -1, divisible quotients above 2^53"),
 "C10-6": ("Int#* promotes to Float by a float64 overflow test", "products within rounding distance of ±2^63"),
 "C11-5": ("valRange drops nil results ('out of range')", "slicing an array that contains nil elements"),
 "C11-6": ("PanRange memoises resolved bounds (Span)", "one range value used on two sequences of different lengths"),
 "C12-5": ("evalIf calls B itself and raises B's error", "a condition whose user-defined B raises: if-expressions raise, the other constructs treat it as falsy"),
 "C12-6": ("evalJumpIfDefer tests cond != true", "guarded defer with a truthy non-bool guard"),
 "C13-5": ("native/Wrappable.pangaea `_missing` uses the closure's own `\\_`", "keyword arguments of a wrapped property call are dropped"),
 "C13-6": ("Obj#try returns an Either receiver as it is", "`.try` on a value that already is an EitherVal/EitherErr"),
 "C14-5": ("_evalStmts uses nil (the value) as the marker for 'nothing yielded yet'", "a step whose first yield is nil, followed by another yield or a final value"),
 "C14-6": ("recur ignores keyword arguments", "iterator with keyword parameters forwarded through recur(..., k: k), from the second step on"),
 "C15-5": ("builtInCallProp evaluates the body with _evalStmts and drops the defers", "defer inside a method reached implicitly (infix/prefix operator, S, B, callProp)"),
 "C15-6": ("`defer X if C` registered as `defer (X if C)`", "a guard whose value changes before exit or whose evaluation is observable"),
 "C16-5": ("RET token pattern no longer accepts tabs before a comment/blank line", "a tab-indented blank/comment line where the grammar takes exactly one RET"),
 "C16-6": ("GetSymHash hashes only the first 256 bytes plus the length", "two names/strings > 256 bytes with the same length and head"),
 "C17-5": ("object/str.go hand-written isPublic rejects a trailing `_`", "a name ending in `_` used as object key / symbol"),
 "C17-6": ("parseFloatLiteral through big.Float (64-bit mantissa) then Float64", "float literals of ≥ 17 digits on a double-rounding midpoint"),
 "C18-5": ("native/Iterable.pangaea max/min: `(i > max && i) || max`", "the extreme is a falsy value (0, 0.0, false, \"\") not in first position; clip"),
 "C18-6": ("compObjs compares len(Keys) instead of len(Pairs)", "objects differing only in private / non-symbol keys: == not symmetric"),
 "C19-5": ("di/import.go caches relative imports per process", "the same module file imported by an earlier program (load-time effect, exported iterator)"),
 "C19-6": ("process-global call-depth guard whose counter leaks on error returns", "many failing calls earlier in the process, then a deep recursion"),
 "C20-5": ("assignArgsToEnv takes \\N symbols from an unsynchronised package-level slice", "two concurrent calls with ≥ 10 positional arguments of an arity the process has not seen"),
 "C20-6": ("importModule caches standard modules; the fast-path read is not locked", "an import of a cached module concurrent with the first import of another"),
}

root = '/verif/seeded'
for sid, (change, needs) in sorted(D.items()):
    d = os.path.join(root, sid)
    if not os.path.isdir(d):
        print('missing', sid); continue
    prop = sid.split('-')[0]
    rd = lambda f: open(os.path.join(d, f)).read() if os.path.exists(os.path.join(d, f)) else ''
    checks = rd('checks.txt').strip()
    caught = sorted(set(m.group(1) for m in re.finditer(r'^(C\d\d) exit=1 violations=[1-9]', checks, re.M)))
    note = {}
    old = os.path.join(d, 'meta.json')
    if os.path.exists(old):
        note = {k: v for k, v in json.load(open(old)).items() if k in ('note', 'strengthening')}
    meta = {
        "id": sid, "breaks_property": prop, "change": change, "needs_to_manifest": needs,
        "source": "fresh sub-agent (third wave) given only the property text and a scratch worktree; independently of /verif",
        "confirmed": {
            "in": "scratch worktree /tmp/w3-%s (removed afterwards)" % prop,
            "builds": True,
            "existing_suite": "go test -vet=off -count=1 ./... minus props/modules/http/builtin (fixed port 50000), and `pangaea test tests`: pass",
            "demo_with_change": rd('demo.with.txt')[-700:],
            "demo_without_change": rd('demo.without.txt')[-300:],
        },
        "checks_run": "tools/tryseed.sh seeded/%s/patch.diff <IDs>  (git -C /repo apply; ./check <ID> quick; git -C /repo checkout -- .)" % sid,
        "result": checks,
        "caught_by": caught,
    }
    meta.update(note)
    json.dump(meta, open(old, 'w'), indent=1, ensure_ascii=False)
    print(sid, 'caught_by', caught)
