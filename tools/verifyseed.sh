#!/bin/sh
# tools/verifyseed.sh <ID> <n> [check ids...]
# 1. in the agent's scratch worktree /tmp/wt-<ID>: apply out/patch<n>.diff, build, run the existing suite (http module excluded: fixed port),
#    run the demonstration with and without the change;
# 2. apply the change to /repo, run the given quick checks (default: <ID>), undo it;
# 3. store everything under /verif/seeded/<ID>-<n>/.
set -u
ID=$1; N=$2; shift 2
CHECKS=${*:-$ID}
WT=${WT:-/tmp/wt-$ID}
export GOFLAGS=-mod=mod GOPROXY=off GOSUMDB=off GOTOOLCHAIN=local
OUT=/verif/seeded/$ID-${SN:-$N}
mkdir -p "$OUT"
cd "$WT" || exit 2
git checkout -q -- . ; git clean -fdq -e out
P=$WT/out/patch$N.diff
[ -f "$P" ] || { echo "no $P"; exit 2; }
rundemo() {
  for f in out/demo$N.sh out/demo$N.go out/demo$N.pangaea; do
    if [ -f "$f" ]; then
      case $f in
        *.sh) timeout 120 sh "$f" 2>&1; echo "exit=$?";;
        *.go) timeout 120 go run "./$f" 2>&1; echo "exit=$?";;
        *.pangaea) timeout 120 go run . "$f" 2>&1; echo "exit=$?";;
      esac
      return
    fi
  done
  echo "no demo file"
}
git apply "$P" || { echo "patch does not apply in worktree"; exit 2; }
BUILD=ok; go build ./... >/dev/null 2>&1 || BUILD=FAILED
TESTS=$(go test -vet=off -count=1 $(go list ./... | grep -v http/builtin) 2>&1 | grep -E "^(FAIL|---)" | head -5)
PT=$(go build -o /tmp/pg-verify-$ID . && timeout 300 /tmp/pg-verify-$ID test tests </dev/null >/dev/null 2>&1; echo $?); rm -f /tmp/pg-verify-$ID
[ "$PT" = "0" ] || TESTS="$TESTS pangaea-test-exit=$PT"
[ -z "$TESTS" ] && TESTS=pass
rundemo > "$OUT/demo.with.txt"
git checkout -q -- . ; git clean -fdq -e out
rundemo > "$OUT/demo.without.txt"
cp "$P" "$OUT/patch.diff"
cp -r out/demo$N* "$OUT/" 2>/dev/null
[ -f out/astdump.go ] && cp out/astdump.go "$OUT/"
DISCR=no; cmp -s "$OUT/demo.with.txt" "$OUT/demo.without.txt" || DISCR=yes
echo "== $ID-${SN:-$N} build=$BUILD tests=$TESTS demo-discriminates=$DISCR"
echo "   with:    $(tail -3 "$OUT/demo.with.txt" | tr '\n' '|' | cut -c1-200)"
echo "   without: $(tail -3 "$OUT/demo.without.txt" | tr '\n' '|' | cut -c1-200)"
cd /verif
[ -n "${NOTRY:-}" ] && exit 0
tools/tryseed.sh "$OUT/patch.diff" $CHECKS | tee "$OUT/checks.txt" | sed 's/^/   /'
