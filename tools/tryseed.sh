#!/bin/sh
# tools/tryseed.sh <patch.diff> <ID> [<ID>...]   apply a seeded change to /repo, run the quick checks, undo it.
# Prints one line per check: "<ID> exit=<code> violations=<n> first-key=<key>".
set -u
PATCH=$1; shift
cd /verif || exit 2
if [ -n "$(git -C /repo status --porcelain)" ]; then echo "/repo is not clean"; exit 2; fi
if ! git -C /repo apply "$PATCH"; then echo "patch does not apply"; exit 2; fi
for id in "$@"; do
  out=$(./check "$id" "${TIER:-quick}" 2>&1)
  code=$?
  n=$(printf '%s\n' "$out" | grep -c '^VIOLATION')
  k=$(printf '%s\n' "$out" | grep -m1 '  key:' | cut -c1-160)
  echo "$id exit=$code violations=$n $k"
done
git -C /repo checkout -- . && git -C /repo clean -fdq
git -C /repo status --porcelain
