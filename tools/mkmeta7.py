#!/usr/bin/env python3
"""Write seeded/<ID>-14|15/meta.json for the seventh wave of seeded changes from the
verification outputs left by tools/verifyseed.sh (demo.with/without.txt, checks.txt)."""
import json, os, re, sys

D = {
 "C02-14": ("the `expr BIT_RSHIFT expr` action rotates the node when its left operand is a `<<` infix", "the ordered pair `<<` then `>>` at the same level without parentheses (visible in the AST only: Int has no shift props)"),
 "C02-15": ("`%left DOUBLE_STAR` becomes `%right DOUBLE_STAR`", "`**` written twice in a row without parentheses"),
 "C11-14": ("fixRange clamps a still-negative bound to 0 instead of `lower` (-1 for negative steps)", "a negative step with a start or stop below -length"),
 "C12-14": ("canShortCut counts the left operand as true whenever B does not return false", "an object whose user-defined B returns a non-bool (1, nil) as the left operand of && / ||"),
 "C12-15": ("isTruthy gains a PanInt fast path (`Value != 0`) taken before B is asked", "an Int descendant overriding B, made with new, as the condition of if or of a guarded jump"),
 "C15-14": ("evalDefer keeps the first error of a raising defer but goes on evaluating the remaining defers", "a deferred expression that raises with at least one more defer registered after it"),
 "C15-15": ("evalJumpIfDefer registers the guarded defer only when the guard is literally `true`", "`defer e if c` whose c is truthy but not a bool (3, \"on\")"),
}

root = '/verif/seeded'
for sid, (change, needs) in sorted(D.items()):
    d = os.path.join(root, sid)
    if not os.path.isdir(d):
        print('missing', sid); continue
    prop = sid.split('-')[0]
    rd = lambda f: open(os.path.join(d, f)).read() if os.path.exists(os.path.join(d, f)) else ''
    checks = rd('checks.txt').strip()
    caught = sorted(set(m.group(1) for m in re.finditer(r'^(C\d\d) exit=1 violations=[1-9]', checks, re.M)))
    note = {}
    old = os.path.join(d, 'meta.json')
    if os.path.exists(old):
        note = {k: v for k, v in json.load(open(old)).items() if k in ('note', 'strengthening')}
    meta = {
        "id": sid, "breaks_property": prop, "change": change, "needs_to_manifest": needs,
        "source": "fresh sub-agent (seventh wave) given only the property text and a scratch worktree; independently of /verif",
        "confirmed": {
            "in": "scratch worktree /tmp/wt-%s (removed afterwards)" % prop,
            "builds": True,
            "existing_suite": "go test -vet=off -count=1 ./... minus props/modules/http/builtin (fixed port 50000), and `pangaea test tests`: pass",
            "demo_with_change": rd('demo.with.txt')[-700:],
            "demo_without_change": rd('demo.without.txt')[-300:],
        },
        "checks_run": "tools/tryseed.sh seeded/%s/patch.diff <IDs>  (git -C /repo apply; ./check <ID> quick; git -C /repo checkout -- .)" % sid,
        "result": checks,
        "caught_by": caught,
    }
    meta.update(note)
    json.dump(meta, open(old, 'w'), indent=1, ensure_ascii=False)
    print(sid, 'caught_by', caught)
