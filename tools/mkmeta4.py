#!/usr/bin/env python3
"""Write seeded/<ID>-3|4/meta.json for the fourth wave of seeded changes from the
verification outputs left by tools/verifyseed.sh (demo.with/without.txt, checks.txt)."""
import json, os, re, sys

D = {
 "C01-7": ("object/io.go ReadLine calls scanner.Buffer after a failed Scan to support long lines", "an stdin line longer than 64 KiB read through `<>`: bufio panics `Buffer called after Scan`"),
 "C01-8": ("parser.go.y: the InfixExpr synthesised for compound assignment loses its Src", "a compound assignment whose operator or variable lookup raises (`a //= 0`): nil dereference in appendStackTrace"),
 "C02-7": ("parser.go.y: MULTILINE chain tokens moved below `||` in the precedence ladder", "a multi-line `|.` chain directly after an infix expression: `a + b\\n|.c` groups as (a + b).c"),
 "C02-8": ("runscript/const.go: -p template becomes `<>@{%s.p}`", "the -p one-liner with an infix / if / assignment expression: `.p` binds to the last operand"),
 "C03-7": ("evalArgs wraps the first ** operand's own pair map as the accumulator", "a call with two ** operands, the first a variable, then another use of that object"),
 "C03-8": ("assignArgsToEnv takes \\1..\\9 from a table; off-by-one in the fallback for higher positions", "a call with ≥ 10 positional arguments reading \\9, \\10, …"),
 "C04-7": ("prop-call thoughtful middleware treats a PanErrWrapper result as a failure", "`~.`/`~@`/`~$` in property form whose callee returns a caught error value"),
 "C04-8": ("literal-call reduce chain funnels the callee's error into the StopIterErr check", "a `$` chain in literal/variable form whose callee raises StopIterErr"),
 "C05-7": ("evalObj returns x itself for a literal consisting of one `**x`", "`{**child}` where child has a non-Obj prototype, then inherited / absent names, proto, ancestors"),
 "C05-8": ("evalFuncMethodCall calls a parameter-less function property without the receiver", "a function property written without parameter list that reads \\1 / \\0 / .prop"),
 "C06-7": ("evalAssign extends the array in place for `a += [..]`", "compound += with an array literal while the old array is still referenced elsewhere"),
 "C06-8": ("PanIO.ReadLine returns a zero-copy string into bufio's buffer", "stdin larger than the scanner buffer with earlier lines kept while later ones are read"),
 "C07-7": ("literal-call list chain applies the StopIterErr-means-end rule to the element function's error", "a literal/variable list chain whose element function raises StopIterErr"),
 "C07-8": ("native/Func.pangaea asFor? swallows every error of the predicate", "a raising function used as a pattern (`===`, case, grep, indices)"),
 "C07-9": ("RunTest keeps walking after a failing file and the exit code is overwritten", "`pangaea test dir` where a failing file is followed by a passing one"),
 "C08-7": ("compObjs/compMaps/compArrs return an element's `==` error", "containers with ≥ 2 keys where one value's == raises and another differs: outcome depends on map order"),
 "C08-8": ("evalInfix evaluates both operands before checking either for an error", "a raising left operand with a side-effecting right operand"),
 "C09-7": ("findElemInMap skips stored keys whose proto differs from the index's", "a map with an object key looked up with an ==-equal object of another prototype"),
 "C09-8": ("Obj#keys/values/items test `private? != false`", "`private?: nil` (or any non-bool) lists the private names"),
 "C10-7": ("evalInfix memoises the operator symbol in two package-level variables", "two goroutines evaluating different infix operators at the same time"),
 "C10-8": ("Int#/ // % detect a zero divisor by identity with the 0 singleton", "a zero that is not the singleton (`true - true`, `MyInt.new(0)`): +Inf / host panic"),
 "C11-7": ("findElemInStr asserts the receiver is a PanStr instead of tracing its proto", "indexing / slicing `\"abc\".bear`"),
 "C11-8": ("arrRange/strRange return early for an empty receiver", "empty sequence sliced with step 0: no ValueErr"),
 "C12-7": ("compound `||=`/`&&=` pass the full token to canShortCut", "`x ||= e` with truthy x (or `&&=` with falsy x) evaluates and assigns e"),
 "C12-8": ("parseJSONBool allocates new PanBool values", "a JSON-decoded `true` as the condition of if / guards (pointer comparison) vs !, &&, ||"),
 "C13-7": ("EitherVal#fmap overwrites _value in the receiver and returns it", "an intermediate Either kept in a variable and continued twice"),
 "C13-8": ("evalVarCall no longer goes through literalProxyMiddleware", "a step spelled `x.try.^f`: f receives the Either itself"),
 "C14-7": ("isTruthy fast path judges a PanObj by having own props", "guard value that is an object overriding B (sentinel with B: false)"),
 "C14-8": ("a step that ends in an error restores the iterator's Env", "recur (or defer recur) before a guard that fails, then next / chains after the stop"),
 "C15-7": ("evalDefer runs all defers and reports the first error", "a deferred expression that raises followed by further defers"),
 "C15-8": ("only deferred expressions that are syntactically calls are registered", "`defer (a if c else b)`, `defer x << y`, `defer \"#{f()}\"`, `defer _ := f()`"),
 "C16-7": ("REPL line splitter accepts a lone \\r but decides at a read boundary", "CRLF input through the REPL with a read boundary between \\r and \\n"),
 "C16-8": ("lexer skips backslash-newline as whitespace", "a bare `\\` (first argument) directly before a line break"),
 "C17-7": ("embedded-string pieces strip a trailing `\\\"` unconditionally", "an interpolated string with `\\\"` immediately before `#{`"),
 "C17-8": ("the REPL trims blanks from every input line", "`? ` at the end of a line; raw strings with indented / blank-ended lines in multi-line mode"),
 "C18-7": ("Float#<=> returns 0 within 1e-9", "unequal floats closer than 1e-9 (0.1 + 0.2 vs 0.3)"),
 "C18-8": ("compArrs fast path for int elements requires the other element to be a PanInt", "an int opposite a boolean of the same value inside arrays: == not symmetric"),
 "C19-7": ("FindPropAlongProtos caches look-ups for scalars by (type, prop)", "an earlier program calls a prop defined on a child of Int/Str; a later one uses the name on a plain scalar"),
 "C19-8": ("a process-wide flag set by thoughtful chains is left set by a `~$` whose last element fails", "later uncaught errors are reported with an empty stack trace"),
 "C20-7": ("http mapToObj keeps made key strs in an unsynchronised package-level map", "two requests in flight, one carrying a header/query/param name never seen before"),
 "C20-8": ("PanStr.Hash uses one shared fnv hasher for non-symbol strs", "two evaluations hashing non-symbol strs at the same moment"),
}

root = '/verif/seeded'
for sid, (change, needs) in sorted(D.items()):
    d = os.path.join(root, sid)
    if not os.path.isdir(d):
        print('missing', sid); continue
    prop = sid.split('-')[0]
    rd = lambda f: open(os.path.join(d, f)).read() if os.path.exists(os.path.join(d, f)) else ''
    checks = rd('checks.txt').strip()
    caught = sorted(set(m.group(1) for m in re.finditer(r'^(C\d\d) exit=1 violations=[1-9]', checks, re.M)))
    note = {}
    old = os.path.join(d, 'meta.json')
    if os.path.exists(old):
        note = {k: v for k, v in json.load(open(old)).items() if k in ('note', 'strengthening')}
    meta = {
        "id": sid, "breaks_property": prop, "change": change, "needs_to_manifest": needs,
        "source": "fresh sub-agent (fourth wave) given only the property text and a scratch worktree; independently of /verif",
        "confirmed": {
            "in": "scratch worktree /tmp/w4-%s (removed afterwards)" % prop,
            "builds": True,
            "existing_suite": "go test -vet=off -count=1 ./... minus props/modules/http/builtin (fixed port 50000), and `pangaea test tests`: pass",
            "demo_with_change": rd('demo.with.txt')[-700:],
            "demo_without_change": rd('demo.without.txt')[-300:],
        },
        "checks_run": "tools/tryseed.sh seeded/%s/patch.diff <IDs>  (git -C /repo apply; ./check <ID> quick; git -C /repo checkout -- .)" % sid,
        "result": checks,
        "caught_by": caught,
    }
    meta.update(note)
    json.dump(meta, open(old, 'w'), indent=1, ensure_ascii=False)
    print(sid, 'caught_by', caught)
