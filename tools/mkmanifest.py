#!/usr/bin/env python3
"""Regenerates /verif/MANIFEST.json from the table below (run from anywhere)."""
import json, os, subprocess
V = os.path.dirname(os.path.dirname(os.path.abspath(__file__)))

CHECKS = {
 "C10": dict(level="exploration", design="§3 C10",
   technique="runtime monitoring: math/big reference-model monitor over executions of the real Int operators (exhaustive small square + boundary table + seeded random pairs)",
   text="Every Int operator of the statement is executed on the real interpreter (parsed `a op b` and `Int['op](a,b)`) for the full square [-40,40]², all pairs of a boundary table and seed-determined random 64-bit pairs; each observed result is compared with math/big (bit-exact float64 for `/`). Held-on-observed: exhaustive on the square, sampled elsewhere.",
   note="Trusted: Go math/big and float64 division as the reference; operands are injected as Int values (literal parsing is C17's subject). Results outside int64 are not judged."),
 "C11": dict(level="exploration", design="§3 C11",
   technique="runtime monitoring: reference-model monitor (slice rule) + model-free 'nothing invented' monitor over bounded-exhaustive executions of the real indexing code",
   text="Every (sequence kind, length ≤ N, start, stop, step) of the stated cube (window around the length, nil, int64 extremes; step 0) is executed through `s[r]`/`s[i]` on the real interpreter and compared with the statement's slice rule; independently every returned element must be an element of s. A case stopped by the watchdog/heap guard counts as a violation (does not return). Exhaustive over the cube (N=4 quick, N=7 thorough) plus a seed-chosen sample through source text.",
   note="Trusted: refSlice (transcription of the statement's rule, equal to Python's slice.indices). Lengths beyond N and non-int bounds are not explored."),
 "C17": dict(level="exploration", design="§3 C17",
   technique="runtime monitoring: independent-oracle monitor (math/big, strconv.ParseFloat, constructed string contents) over generated literal spellings and names run through the real parser and evaluator",
   text="Generated and tabulated spellings of every documented literal form and names from the documented pattern are parsed and evaluated by the real interpreter; the observed value is compared with an oracle that shares no code with /repo's parser; unrepresentable literals and undefined escapes must end in an error. Fixed boundary/reserved-prefix tables in both tiers, 6 k (quick) / 200 k (thorough) generated cases.",
   note="Trusted: math/big, strconv.ParseFloat as reference; the list of documented escapes (\\n \\t \\\\ \\\")."),
 "C18": dict(level="exploration", design="§3 C18",
   technique="runtime monitoring: algebraic-law monitor evaluated on the real interpreter over all pairs/triples of a user-reachable value pool",
   text="The laws of the statement (reflexive, symmetric, != negation; trichotomy, unions, <=> antisymmetry, transitivity, max/min/between?/clip agreement) are evaluated by the real interpreter for every pair of ≈110 pool values (every built-in data type, nested containers, Either/wrapped errors, funcs, typed descendants) and every pair/triple of each ordered family; exhaustive over the pool, thorough also over array/object/map wrappings of each value.",
   note="Trusted: nothing but the interpreter's own booleans; the pool is fixed (values outside it are not explored). Cross-family comparisons (int vs float) are TypeErr by definition and not judged."),
}

ALL = ["C%02d" % i for i in range(1, 21)]
NOT_BUILT_REASON = "check not built yet in this round (planned: see DESIGN.md §3); not claimed until its monitor exists and is silent on the unchanged tree"

def main():
    hooks_commits = []
    try:
        out = subprocess.check_output(["git", "-C", "/repo", "log", "--format=%H %s"], text=True)
        for line in out.splitlines():
            h, s = line.split(" ", 1)
            if s.startswith("verif:"):
                hooks_commits.append(h)
    except Exception:
        pass
    m = {
      "version": 1,
      "setup_cmd": "cd /verif/harness && export GOFLAGS=-mod=mod GOPROXY=off GOSUMDB=off GOTOOLCHAIN=local && mkdir -p /verif/bin && go build -tags verif -o /verif/bin/pvcheck ./cmd/pvcheck && go build -race -tags verif -o /verif/bin/pvcheck-race ./cmd/pvcheck",
      "hooks": {
        "guard": "verif",
        "enable": "go build -tags verif (the harness module /verif/harness replaces github.com/Syuparn/pangaea by /repo, so every ./check rebuilds /repo's working tree with the tag on)",
        "baseline_off_cmd": "cd /repo && GOFLAGS=-mod=mod GOPROXY=off GOSUMDB=off GOTOOLCHAIN=local go test -vet=off -count=1 ./...",
        "source_commits": list(reversed(hooks_commits)),
        "add_only": True,
      },
      "engines": [
        {"name": "pvcheck", "path": "/verif/harness", "serves_properties": sorted(CHECKS),
         "kind_free_text": "Go harness: worker processes run the real interpreter (built from /repo with -tags verif) under generated/enumerated workloads; monitors (reference models, metamorphic relations, structural walkers, race detector, porcupine) decide each observed execution"},
      ],
      "checks": [],
      "not_applicable": [],
      "notes": "Every check: ./check <ID> quick|thorough (cwd /verif), VERIF_SEED honoured; exit 0 held / 1 VIOLATION / 2 could not decide (tree does not build or floor not reached). known_findings.jsonl lists recorded and fixed defects.",
    }
    for pid in ALL:
        if pid in CHECKS:
            c = CHECKS[pid]
            m["checks"].append({
              "property_id": pid,
              "quick_cmd": "./check %s quick" % pid,
              "thorough_cmd": "./check %s thorough" % pid,
              "evidence_file": "/verif/evidence/%s.json" % pid,
              "replay_cmd_template": "./check %s --replay {path}" % pid,
              "engine": "pvcheck",
              "level_claimed": {"category": c["level"], "text": c["text"], "design_ref": c["design"]},
              "level_note": c["note"],
              "technique": c["technique"],
            })
        else:
            m["not_applicable"].append({"property_id": pid, "reason": NOT_BUILT_REASON})
    with open(os.path.join(V, "MANIFEST.json"), "w") as f:
        json.dump(m, f, indent=1)
        f.write("\n")

if __name__ == "__main__":
    main()
