#!/usr/bin/env python3
"""Regenerates /verif/MANIFEST.json from the table below (run from anywhere)."""
import json, os, subprocess
V = os.path.dirname(os.path.dirname(os.path.abspath(__file__)))

CHECKS = {
 "C10": dict(level="exploration", design="§3 C10",
   technique="runtime monitoring: math/big reference-model monitor over executions of the real Int operators (exhaustive small square + boundary table + seeded random pairs)",
   text="Every Int operator of the statement is executed on the real interpreter (parsed `a op b` and `Int['op](a,b)`) for the full square [-40,40]², all pairs of a boundary table and seed-determined random 64-bit pairs; each observed result is compared with math/big (bit-exact float64 for `/`). Held-on-observed: exhaustive on the square, sampled elsewhere.",
   note="Trusted: Go math/big and float64 division as the reference; operands are injected as Int values (literal parsing is C17's subject). Results outside int64 are not judged."),
 "C11": dict(level="exploration", design="§3 C11",
   technique="runtime monitoring: reference-model monitor (slice rule) + model-free 'nothing invented' monitor over bounded-exhaustive executions of the real indexing code",
   text="Every (sequence kind, length ≤ N, start, stop, step) of the stated cube (window around the length, nil, int64 extremes; step 0) is executed through `s[r]`/`s[i]` on the real interpreter and compared with the statement's slice rule; independently every returned element must be an element of s. A case stopped by the watchdog/heap guard counts as a violation (does not return). Exhaustive over the cube (N=4 quick, N=7 thorough) plus a seed-chosen sample through source text.",
   note="Trusted: refSlice (transcription of the statement's rule, equal to Python's slice.indices). Lengths beyond N and non-int bounds are not explored."),
 "C17": dict(level="exploration", design="§3 C17",
   technique="runtime monitoring: independent-oracle monitor (math/big, strconv.ParseFloat, constructed string contents) over generated literal spellings and names run through the real parser and evaluator",
   text="Generated and tabulated spellings of every documented literal form and names from the documented pattern are parsed and evaluated by the real interpreter; the observed value is compared with an oracle that shares no code with /repo's parser; unrepresentable literals and undefined escapes must end in an error. Fixed boundary/reserved-prefix tables in both tiers, 6 k (quick) / 200 k (thorough) generated cases.",
   note="Trusted: math/big, strconv.ParseFloat as reference; the list of documented escapes (\\n \\t \\\\ \\\")."),
 "C18": dict(level="exploration", design="§3 C18",
   technique="runtime monitoring: algebraic-law monitor evaluated on the real interpreter over all pairs/triples of a user-reachable value pool",
   text="The laws of the statement (reflexive, symmetric, != negation; trichotomy, unions, <=> antisymmetry, transitivity, max/min/between?/clip agreement) are evaluated by the real interpreter for every pair of ≈110 pool values (every built-in data type, nested containers, Either/wrapped errors, funcs, typed descendants) and every pair/triple of each ordered family; exhaustive over the pool, thorough also over array/object/map wrappings of each value.",
   note="Trusted: nothing but the interpreter's own booleans; the pool is fixed (values outside it are not explored). Cross-family comparisons (int vs float) are TypeErr by definition and not judged."),
 "C01": dict(level="exploration", design="§3 C01",
   technique="runtime monitoring: crash oracle (recover(), worker death, CLI stderr/exit status, empty stack trace) over fuzzed executions of every public entry point, with fuel/depth/heap monitors through hook H1",
   text="Every (prototype, property) found at run time is called with pool receivers/arguments in 7 call forms, every pool value is indexed by every pool value, random ill-typed programs, mutated corpus programs, stdin doubles × failing stdout, RunSource, the REPL, RunTest and a sample through the built CLI are executed on the real interpreter; any host panic, fatal error, Go-nil result or top-level error without stack trace is a violation, de-duplicated by panic site. Cut-offs (fuel, depth, heap, watchdog, allocation-size panics) are inconclusive.",
   note="Trusted: the transcription of web/wasm/executor.go:execute (syscall/js cannot be built natively). Only paths the generators drive are observed."),
 "C02": dict(level="exploration", design="§3 C02",
   technique="runtime monitoring: metamorphic + reference-model monitor over executions of the real parser (minimal text vs fully parenthesised text vs independent precedence model)",
   text="All 23² infix pairs and 23³ triples, every construct nested in every operand position of every other construct (≈8 k), jump statements over every construct and guard, and seed-determined random trees are parsed by the real parser; Parse(minimal).String() must equal Parse(fully parenthesised).String() and the rendering of an independent model of the documented table. Exhaustive for the listed finite families.",
   note="Trusted: the transcription of docs/reference/operators.md and the rendering rules of Program.String(). Combinations the table cannot define are not generated."),
 "C06": dict(level="exploration", design="§3 C06",
   technique="runtime monitoring: structural-invariant monitor (walker over live interpreter objects at quiescent points) + boundary cross-check of Inspect()",
   text="Histories of 10–60 statements apply every built-in/native property, unpacking literals, */** calls, all chain contexts, slicing and repeated-source patterns to earlier values that are all kept alive; after each statement every previously seen object reachable from the scope is re-fingerprinted (payload, proto, ordered child pointers, key lists) and every variable's Inspect() is compared with what it printed when bound.",
   note="Trusted: the walker sees exported fields only; iterators and variable frames are exempt by the statement."),
 "C16": dict(level="exploration", design="§3 C16",
   technique="runtime monitoring: metamorphic monitor over executions of the real lexer/parser (layout padding, token length, reader chunking)",
   text="A kit program with every grammar-allowed line-break place marked, corpus files (breaks found by an independent scanner) and long single tokens are re-parsed under 6 padding kinds × run lengths up to 70 000 bytes around the 1 KiB/2 KiB boundaries × leading shifts, token lengths up to 70 000 at 3 offsets, and 16 chunking readers; the printed AST (or the token's value) must equal the base parse.",
   note="Trusted: Program.String() identifies the parse; the scanner declines corpus files it does not fully understand."),
 "C19": dict(level="exploration", design="§3 C19",
   technique="runtime monitoring: cross-process differential monitor + structural monitor over built-in objects at quiescent points",
   text="Each B program is observed twice in a newly started process and then, in a long-lived interpreter, in a fresh scope after each of 16 (quick) histories of 1–8 programs; stdout, value, error and stack trace must be byte-identical; after every history program all objects reachable from the const env are compared with their start-up fingerprint (incl. stack-trace text of error objects), history variables must be undefined afterwards, and RunTest(dir) must equal the files run alone.",
   note="Trusted: transcription of the playground's execute(); B programs are deterministic by construction (checked by two fresh runs)."),
 "C20": dict(level="exploration", design="§3 C20",
   technique="runtime monitoring: Go race detector + runtime concurrent-map detector under yield-point stress (hook H2) + porcupine linearizability check of recorded symbol-table histories + functional oracle on every concurrent evaluation",
   text="Race-built workers run 2–16 goroutines evaluating symbol-interning / symbol-printing programs in separate scopes, fresh start-ups under GOMAXPROCS 1/2/4/16 and the real http module under concurrent clients; any race report with a /repo frame is a violation. Plain workers repeat the scope workload with yield points (a concurrent map fault kills the worker = violation) and record GetSymHash/SymHash2Str histories checked per key by porcupine; every evaluation's and request's result is also checked.",
   note="Trusted: Go's race detector (happens-before, executed paths only), porcupine v1.3.0, the sequential model of the intern table. Schedules are sampled."),
 "C07": dict(level="fault_enumeration", design="§3 C07",
   technique="runtime monitoring: exhaustive fault placement over construct templates with a temporal monitor on the stdout marker trace, outcome check and residue scan of live values",
   text="For every template of a catalogue covering every syntactic position named by the statement (≈150 templates quick, ≈750 with one level of nesting in thorough) a raise (ValueErr or host ZeroDivisionErr) is injected at every hole, under no handler, try and a thoughtful chain; the real run's marker trace must show nothing after the raise marker except earlier-registered defers, the delivered outcome must be that error, and a walker must find no error object stored in any reachable value. Exhaustive over the catalogue.",
   note="Trusted: the template catalogue (positions the generators do not place a fault in are not observed). Marker order before the raise is not judged (C08)."),
 "C08": dict(level="exploration", design="§3 C08",
   technique="runtime monitoring: trace monitor (marker order, Eval event trace through hook H1) + repeated-execution differential within and across processes",
   text="Order templates print markers numbered in the documented evaluation order for every construct of the statement (kwargs 2–8 on four callee kinds, defaults, unpacks, pairs, bounds, embedded parts, stdin/iterator consumption); reproducibility programs rich in hash-ordered data and corpus programs are run 24× in-process (64× thorough) and in 3 fresh processes; observations and the Eval event sequence must be identical and duplicates must resolve first-occurrence-wins.",
   note="Trusted: Go's per-iteration map randomisation as the source of layout diversity; probabilistic detection for small hash-ordered constructs (templates also use ≥5 entries)."),
 "C09": dict(level="exploration", design="§3 C09",
   technique="runtime monitoring: reference-model monitor (first-wins ordered dictionary) + model-free cross-accessor relations over generated literals run on the real interpreter",
   text="Generated object and map literals (all key spellings and kinds, duplicates within and across ** operands, private names, sizes 0–12; 3.2 k quick, 100 k thorough) are evaluated and every accessor of the statement is compared with the model; len/keys/values/items/A agreement and m[keys[i]] == values[i] are checked on the real values.",
   note="Trusted: the ordered-dictionary model; NaN/-0.0 keys and ** operands written before literal pairs are not generated."),
 "C12": dict(level="exploration", design="§3 C12",
   technique="runtime monitoring: consistency monitor over executions of every conditional construct, with truth(v) read from the interpreter's own `v.B` and Go pointer identity for 'returns the deciding operand itself'",
   text="Every pool value (≈145 incl. prototypes, descendants and objects with user-defined B) is used as the condition of 19 constructs with marker-printing operands; markers give exactly-one-branch and at-most-once/only-if-needed evaluation, pointer identity gives the deciding operand; built-in data values are checked against the zero-value table. Exhaustive over pool × constructs.",
   note="Trusted: `v.B` as the definition of truth (per the statement); the pool is fixed."),
 "C15": dict(level="fault_enumeration", design="§3 C15",
   technique="runtime monitoring: exhaustive exit placement with a reference-model monitor (defer model) over stdout marker traces and outcomes of the real interpreter",
   text="All bodies of n ≤ 3 (quick) / n ≤ 4 (thorough) statements over {marker, defer, guarded defers, raising defer, nested call with its own defers}, with every exit kind injected at every statement index, in five calling contexts (≈34 k programs quick) are run on the real interpreter and compared with the statement's defer model (marker sequence + value/error). Exhaustive for the stated alphabet and bound.",
   note="Trusted: the defer model transcribed from the statement; bodies end with an explicit value."),
 "C03": dict(level="exploration", design="§3 C03",
   technique="runtime monitoring: reference-model monitor (independent reference evaluator over the generator AST) compared with stdout and final value of the real interpreter",
   text="Random programs from a function profile (nested closures and methods, shadowing parameters, assignments inside bodies, closures invoked after the captured scope changed, argument-count mismatches, keyword/positional interleavings, defaults, */**, \\-references, property/index/literal/variable calls, trailing literals) are printed to source and run on the real interpreter; every printed read and the final value must equal the reference evaluator's (2.8 k decided programs quick, 100 k thorough).",
   note="Trusted: package ref (transcribes the statement; declines where the documents are silent); programs it declines are inconclusive."),
 "C04": dict(level="exploration", design="§3 C04",
   technique="runtime monitoring: per-element reference-model monitor + three-form equality monitor over the exhaustive behaviour matrix run on the real interpreter",
   text="All behaviour vectors {value, nil, raise, nil-element}ⁿ (n ≤ 3 quick, ≤ 4 thorough) × 12 chain contexts × 3 call forms over array and iterator-literal receivers of marker-printing user objects, list-chain arguments [] {} %{}, scalar chains and built-in receivers are executed; result, error and the set of callees actually called are compared with the statement's rule and the three forms with each other. Exhaustive over the stated matrix.",
   note="Trusted: the per-element model; cells the statement leaves open (nil element under ~@, lonely reduce with nil receivers) are not generated."),
 "C05": dict(level="exploration", design="§3 C05",
   technique="runtime monitoring: reference-model monitor (prototype forest) over query histories run on the real interpreter",
   text="Histories build forests with literals, bear, bear({…}) and bro({…}) (values, functions, methods, _missing, private names, shadowing at every depth) interleaved with ≈40 queries each (o.name, o.name(arg), o['name], which, proto, ancestors, kindOf?, keys, keys(private?: true)); every answer is compared with the forest model; objects carry unique uids so owners and receivers are identified in printed results.",
   note="Trusted: the forest model of the statement; kindOf? is only asked against objects with an own uid."),
 "C13": dict(level="fault_enumeration", design="§3 C13",
   technique="runtime monitoring: exhaustive failure placement with a differential monitor (wrapped run vs unwrapped run of the same chain in the same interpreter)",
   text="All chains of k ≤ 3 (quick) / k ≤ 4 (thorough) steps over two families (user objects with marker-printing methods; ints with built-in steps) with a failing step of every error source at every position (≈5.3 k distinct chains quick) are run unwrapped and through try; val, err, A, val?, err?, or, catch (matching/non-matching), ignore, abandon, err.type, err.msg and the stdout markers of the wrapped run must describe exactly the unwrapped outcome.",
   note="Trusted: the unwrapped run as reference; steps avoid names the Either itself defines."),
 "C14": dict(level="exploration", design="§3 C14",
   technique="runtime monitoring: reference-model monitor (independent per-iterator state machines) over interleaved operation histories run on the real interpreter",
   text="Histories of 10–40 operations (new from literal and from an advanced iterator, aliasing, next, try.next past the end, A, list and reduce chains, _iter.next, passing to a function, reassigning a captured variable) over 2–6 iterators of a parameterised literal family are run statement by statement; each returned value or StopIterErr must equal the independent state machine's.",
   note="Trusted: the closed-form body models; only iterator literals are judged."),
}

ALL = ["C%02d" % i for i in range(1, 21)]
NOT_BUILT_REASON = "check not built yet in this round (planned: see DESIGN.md §3); not claimed until its monitor exists and is silent on the unchanged tree"

def main():
    hooks_commits = []
    try:
        out = subprocess.check_output(["git", "-C", "/repo", "log", "--format=%H %s"], text=True)
        for line in out.splitlines():
            h, s = line.split(" ", 1)
            if s.startswith("verif:"):
                hooks_commits.append(h)
    except Exception:
        pass
    m = {
      "version": 1,
      "setup_cmd": "cd /verif/harness && export GOFLAGS=-mod=mod GOPROXY=off GOSUMDB=off GOTOOLCHAIN=local && mkdir -p /verif/bin && go build -tags verif -o /verif/bin/pvcheck ./cmd/pvcheck && go build -race -tags verif -o /verif/bin/pvcheck-race ./cmd/pvcheck",
      "hooks": {
        "guard": "verif",
        "enable": "go build -tags verif (the harness module /verif/harness replaces github.com/Syuparn/pangaea by /repo, so every ./check rebuilds /repo's working tree with the tag on)",
        "baseline_off_cmd": "cd /repo && GOFLAGS=-mod=mod GOPROXY=off GOSUMDB=off GOTOOLCHAIN=local go test -vet=off -count=1 ./...",
        "source_commits": list(reversed(hooks_commits)),
        "add_only": True,
      },
      "engines": [
        {"name": "pvcheck", "path": "/verif/harness", "serves_properties": sorted(CHECKS),
         "kind_free_text": "Go harness: worker processes run the real interpreter (built from /repo with -tags verif) under generated/enumerated workloads; monitors (reference models, metamorphic relations, structural walkers, race detector, porcupine) decide each observed execution"},
      ],
      "checks": [],
      "not_applicable": [],
      "notes": "Every check: ./check <ID> quick|thorough (cwd /verif), VERIF_SEED honoured; exit 0 held / 1 VIOLATION / 2 could not decide (tree does not build or floor not reached). known_findings.jsonl lists recorded and fixed defects.",
    }
    for pid in ALL:
        if pid in CHECKS:
            c = CHECKS[pid]
            m["checks"].append({
              "property_id": pid,
              "quick_cmd": "./check %s quick" % pid,
              "thorough_cmd": "./check %s thorough" % pid,
              "evidence_file": "/verif/evidence/%s.json" % pid,
              "replay_cmd_template": "./check %s --replay {path}" % pid,
              "engine": "pvcheck",
              "level_claimed": {"category": c["level"], "text": c["text"], "design_ref": c["design"]},
              "level_note": c["note"],
              "technique": c["technique"],
            })
        else:
            m["not_applicable"].append({"property_id": pid, "reason": NOT_BUILT_REASON})
    with open(os.path.join(V, "MANIFEST.json"), "w") as f:
        json.dump(m, f, indent=1)
        f.write("\n")

if __name__ == "__main__":
    main()
