#!/bin/sh
# tools/runall.sh [quick|thorough]   run every check once; summary line per check.
cd /verif || exit 2
TIER=${1:-quick}
for i in $(seq -w 1 20); do
  id=C$i
  start=$(date +%s)
  out=$(./check "$id" "$TIER" 2>&1); code=$?
  end=$(date +%s)
  n=$(printf '%s\n' "$out" | grep -c '^VIOLATION')
  kf=$(printf '%s\n' "$out" | grep -c '^KNOWN-FINDING')
  echo "$id exit=$code violations=$n known=$kf wall=$((end-start))s"
done
