// Package ref is a small reference evaluator over a generator AST for the function
// profile of Pangaea (C03): lexical scoping, argument binding, \-references, receiver
// passing. It shares no code with /repo; its rules are transcribed from the property
// statement and docs/reference. It may decline (Decline error) where the documents are silent.
package ref

import (
	"fmt"
	"sort"
	"strings"
)

// ---- values
type Val interface{}
type Nil struct{}
type Str string
type Arr struct{ Elems []Val }
type Obj struct{ Pairs map[string]Val }
type Clo struct {
	Fn  *Func
	Env *Frame
	// KwDefaults: values of the keyword defaults written as expressions
	KwDefaults map[string]Val
}

type Frame struct {
	Vars  map[string]Val
	Outer *Frame
}

func (f *Frame) get(n string) (Val, bool) {
	for e := f; e != nil; e = e.Outer {
		if v, ok := e.Vars[n]; ok {
			return v, true
		}
	}
	return nil, false
}

// Err is a Pangaea-level error (kind only is compared for host errors).
type Err struct{ Kind, Msg string }

func (e *Err) Error() string { return e.Kind + ": " + e.Msg }

// Decline means the reference model does not define the outcome (inconclusive).
type Decline struct{ Why string }

func (d *Decline) Error() string { return "declined: " + d.Why }

type retSignal struct{ v Val }

func (r *retSignal) Error() string { return "return" }

func Inspect(v Val) (string, error) {
	switch x := v.(type) {
	case int:
		return fmt.Sprint(x), nil
	case Nil:
		return "nil", nil
	case Str:
		return fmt.Sprintf("%q", string(x)), nil
	case *Arr:
		var p []string
		for _, e := range x.Elems {
			s, err := Inspect(e)
			if err != nil {
				return "", err
			}
			p = append(p, s)
		}
		return "[" + strings.Join(p, ", ") + "]", nil
	case *Obj:
		var ks []string
		for k := range x.Pairs {
			ks = append(ks, k)
		}
		sort.Strings(ks)
		var p []string
		for _, k := range ks {
			s, err := Inspect(x.Pairs[k])
			if err != nil {
				return "", err
			}
			p = append(p, fmt.Sprintf("%q: %s", k, s))
		}
		return "{" + strings.Join(p, ", ") + "}", nil
	}
	if _, ok := v.(*Clo); ok {
		return "<fn>", nil
	}
	return "", &Decline{"printing an unknown value"}
}

// NormalizeFuncs replaces every printed function (`{|…| …}`, possibly nested) by <fn>,
// so that the interpreter's output can be compared with Inspect of the reference values.
func NormalizeFuncs(s string) string {
	var b strings.Builder
	for i := 0; i < len(s); {
		if strings.HasPrefix(s[i:], "{|") {
			depth := 0
			j := i
			for ; j < len(s); j++ {
				if s[j] == '{' {
					depth++
				} else if s[j] == '}' {
					depth--
					if depth == 0 {
						break
					}
				}
			}
			b.WriteString("<fn>")
			i = j + 1
			continue
		}
		b.WriteByte(s[i])
		i++
	}
	return b.String()
}

// ---- AST
type Expr interface{ Src() string }

type Int struct{ V int }
type Var struct{ Name string }
type Assign struct {
	Name string
	E    Expr
}
type Compound struct {
	Name string
	E    Expr
} // x += e
type Print struct{ E Expr }
type KwParam struct {
	Name    string
	Default int
	// DefaultExpr, when set, replaces Default: an expression over the enclosing scope, evaluated when the
	// literal is evaluated (the generator only uses variables that are not reassigned afterwards, so
	// evaluating it at call time would give the same value)
	DefaultExpr Expr
}
type Func struct {
	Params []string
	Kw     []KwParam
	Body   []Expr
	Method bool
}
type Arg struct {
	Kind string // pos kw star dstar
	Name string
	E    Expr
}
type Call struct {
	Callee Expr
	Args   []Arg
	Trail  *Func // trailing func literal
}
type PropCall struct {
	Recv Expr
	Prop string
	Args []Arg
}
type IndexCall struct {
	Recv Expr
	Prop string
	Args []Arg
}
type ArgRef struct {
	Kind string // "\\" "\\N" "\\0" "\\name" "\\_"
	N    int
	Name string
}
type ArrLit struct{ Elems []Expr }
type ObjLit struct {
	Keys []string
	Vals []Expr
}
type AnonChain struct{ Prop string } // .p or .name
type LitCall struct {
	Recv Expr
	Fn   *Func
}
type VarCall struct {
	Recv Expr
	Var  string
}
type Return struct{ E Expr }
type Add struct{ L, R Expr }

func (e *Int) Src() string      { return fmt.Sprint(e.V) }
func (e *Var) Src() string      { return e.Name }
func (e *Assign) Src() string   { return e.Name + " := " + e.E.Src() }
func (e *Compound) Src() string { return e.Name + " += " + e.E.Src() }
func (e *Print) Src() string    { return "(" + e.E.Src() + ").p" }
func (e *Add) Src() string      { return "(" + e.L.Src() + " + " + e.R.Src() + ")" }
func (e *Return) Src() string   { return "return " + e.E.Src() }
func (e *Func) Src() string {
	open := "{"
	if e.Method {
		open = "m{"
	}
	var ps []string
	ps = append(ps, e.Params...)
	for _, k := range e.Kw {
		if k.DefaultExpr != nil {
			ps = append(ps, fmt.Sprintf("%s: %s", k.Name, k.DefaultExpr.Src()))
			continue
		}
		ps = append(ps, fmt.Sprintf("%s: %d", k.Name, k.Default))
	}
	var body []string
	for _, s := range e.Body {
		body = append(body, s.Src())
	}
	return open + "|" + strings.Join(ps, ", ") + "| " + strings.Join(body, "; ") + "}"
}
func argsSrc(args []Arg) string {
	var p []string
	for _, a := range args {
		switch a.Kind {
		case "pos":
			p = append(p, a.E.Src())
		case "kw":
			p = append(p, a.Name+": "+a.E.Src())
		case "star":
			p = append(p, "*"+a.E.Src())
		case "dstar":
			p = append(p, "**"+a.E.Src())
		}
	}
	return strings.Join(p, ", ")
}
func (e *Call) Src() string {
	c := e.Callee.Src()
	if _, ok := e.Callee.(*Func); ok {
		c = "(" + c + ")"
	}
	s := c + "(" + argsSrc(e.Args) + ")"
	if e.Trail != nil {
		s += " " + e.Trail.Src()
	}
	return s
}
func (e *PropCall) Src() string  { return e.Recv.Src() + "." + e.Prop + "(" + argsSrc(e.Args) + ")" }
func (e *IndexCall) Src() string { return e.Recv.Src() + "['" + e.Prop + "](" + argsSrc(e.Args) + ")" }
func (e *ArgRef) Src() string {
	switch e.Kind {
	case "\\N":
		return fmt.Sprintf("\\%d", e.N)
	case "\\name":
		return "\\" + e.Name
	}
	return e.Kind
}
func (e *ArrLit) Src() string {
	var p []string
	for _, x := range e.Elems {
		p = append(p, x.Src())
	}
	return "[" + strings.Join(p, ", ") + "]"
}
func (e *ObjLit) Src() string {
	var p []string
	for i, k := range e.Keys {
		p = append(p, k+": "+e.Vals[i].Src())
	}
	return "{" + strings.Join(p, ", ") + "}"
}
func (e *AnonChain) Src() string { return "." + e.Prop }
func (e *LitCall) Src() string   { return e.Recv.Src() + "." + e.Fn.Src() }
func (e *VarCall) Src() string   { return e.Recv.Src() + ".^" + e.Var }

// ---- evaluator
type Machine struct {
	Out   []string
	Steps int
	// Shadow records that a name was read from / captured across frames (non-triviality)
	CrossFrameReads int
}

const specialArgs = "\x00args"
const specialKw = "\x00kwargs"
const specialNParams = "\x00nparams"

func (m *Machine) Run(prog []Expr) (Val, error) {
	top := &Frame{Vars: map[string]Val{}}
	var last Val = Nil{}
	for _, s := range prog {
		v, err := m.eval(s, top)
		if err != nil {
			if r, ok := err.(*retSignal); ok {
				return r.v, nil // top-level return ends the program
			}
			return nil, err
		}
		last = v
	}
	return last, nil
}

func (m *Machine) evalBody(body []Expr, fr *Frame) (Val, error) {
	var last Val = Nil{}
	for _, s := range body {
		v, err := m.eval(s, fr)
		if err != nil {
			if r, ok := err.(*retSignal); ok {
				return r.v, nil
			}
			return nil, err
		}
		last = v
	}
	return last, nil
}

func (m *Machine) call(c *Clo, pos []Val, kw map[string]Val, kwOrder []string) (Val, error) {
	m.Steps++
	if m.Steps > 20000 {
		return nil, &Decline{"step limit"}
	}
	// each call gets a private frame enclosed in the defining frame
	fr := &Frame{Vars: map[string]Val{}, Outer: c.Env}
	params := c.Fn.Params
	if c.Fn.Method {
		params = append([]string{"self"}, params...)
	}
	for i, p := range params {
		if i < len(pos) {
			fr.Vars[p] = pos[i]
		} else {
			fr.Vars[p] = Nil{}
		}
	}
	for _, k := range c.Fn.Kw {
		if v, ok := kw[k.Name]; ok {
			fr.Vars[k.Name] = v
		} else if dv, ok := c.KwDefaults[k.Name]; ok {
			fr.Vars[k.Name] = dv
		} else {
			fr.Vars[k.Name] = k.Default
		}
	}
	fr.Vars[specialArgs] = &Arr{Elems: append([]Val{}, pos...)}
	kwo := &Obj{Pairs: map[string]Val{}}
	for _, k := range kwOrder {
		kwo.Pairs[k] = kw[k]
	}
	fr.Vars[specialKw] = kwo
	fr.Vars[specialNParams] = len(params)
	return m.evalBody(c.Fn.Body, fr)
}

func (m *Machine) evalArgs(args []Arg, trail *Func, fr *Frame) (pos []Val, kw map[string]Val, order []string, err error) {
	kw = map[string]Val{}
	// positional arguments in the order written, then keyword arguments in the order written
	for _, a := range args {
		switch a.Kind {
		case "pos":
			v, e := m.eval(a.E, fr)
			if e != nil {
				return nil, nil, nil, e
			}
			pos = append(pos, v)
		case "star":
			v, e := m.eval(a.E, fr)
			if e != nil {
				return nil, nil, nil, e
			}
			arr, ok := v.(*Arr)
			if !ok {
				return nil, nil, nil, &Decline{"* on a non-array"}
			}
			pos = append(pos, arr.Elems...)
		}
	}
	for _, a := range args {
		switch a.Kind {
		case "kw":
			v, e := m.eval(a.E, fr)
			if e != nil {
				return nil, nil, nil, e
			}
			if _, dup := kw[a.Name]; !dup {
				kw[a.Name] = v
				order = append(order, a.Name)
			}
		case "dstar":
			v, e := m.eval(a.E, fr)
			if e != nil {
				return nil, nil, nil, e
			}
			o, ok := v.(*Obj)
			if !ok {
				return nil, nil, nil, &Decline{"** on a non-object"}
			}
			var ks []string
			for k := range o.Pairs {
				ks = append(ks, k)
			}
			sort.Strings(ks)
			for _, k := range ks {
				if _, dup := kw[k]; dup {
					return nil, nil, nil, &Decline{"duplicate keyword through **"}
				}
				kw[k] = o.Pairs[k]
				order = append(order, k)
			}
		}
	}
	if trail != nil {
		pos = append(pos, &Clo{Fn: trail, Env: &Frame{Vars: map[string]Val{}, Outer: fr}})
	}
	return
}

func (m *Machine) firstArg(fr *Frame) (Val, error) {
	a, ok := fr.get(specialArgs)
	if !ok {
		return nil, &Decline{"anonymous chain / \\ outside a function"}
	}
	arr := a.(*Arr)
	if len(arr.Elems) == 0 {
		if np, _ := fr.get(specialNParams); np.(int) >= 1 {
			return nil, &Decline{"anonymous chain with fewer arguments than parameters"}
		}
		return nil, &Err{"NameErr", "name `\\1` is not defined"}
	}
	return arr.Elems[0], nil
}

func (m *Machine) eval(e Expr, fr *Frame) (Val, error) {
	switch x := e.(type) {
	case *Int:
		return x.V, nil
	case *Var:
		for f := fr; f != nil; f = f.Outer {
			if v, ok := f.Vars[x.Name]; ok {
				if f != fr {
					m.CrossFrameReads++
				}
				return v, nil
			}
		}
		return nil, &Err{"NameErr", "name `" + x.Name + "` is not defined"}
	case *Assign:
		v, err := m.eval(x.E, fr)
		if err != nil {
			return nil, err
		}
		fr.Vars[x.Name] = v // always the innermost frame
		return v, nil
	case *Compound:
		cur, err := m.eval(&Var{x.Name}, fr)
		if err != nil {
			return nil, err
		}
		r, err := m.eval(x.E, fr)
		if err != nil {
			return nil, err
		}
		ci, ok1 := cur.(int)
		ri, ok2 := r.(int)
		if !ok1 || !ok2 {
			return nil, &Decline{"+= on non-ints"}
		}
		fr.Vars[x.Name] = ci + ri
		return ci + ri, nil
	case *Add:
		l, err := m.eval(x.L, fr)
		if err != nil {
			return nil, err
		}
		r, err := m.eval(x.R, fr)
		if err != nil {
			return nil, err
		}
		li, ok1 := l.(int)
		ri, ok2 := r.(int)
		if !ok1 || !ok2 {
			return nil, &Decline{"+ on non-ints"}
		}
		return li + ri, nil
	case *Print:
		v, err := m.eval(x.E, fr)
		if err != nil {
			return nil, err
		}
		s, err := Inspect(v)
		if err != nil {
			return nil, err
		}
		m.Out = append(m.Out, s)
		return Nil{}, nil
	case *Func:
		// the closure captures the defining frame by reference
		clo := &Clo{Fn: x, Env: &Frame{Vars: map[string]Val{}, Outer: fr}}
		for _, k := range x.Kw {
			if k.DefaultExpr != nil {
				v, err := m.eval(k.DefaultExpr, fr)
				if err != nil {
					return nil, err
				}
				if clo.KwDefaults == nil {
					clo.KwDefaults = map[string]Val{}
				}
				clo.KwDefaults[k.Name] = v
			}
		}
		return clo, nil
	case *ArrLit:
		a := &Arr{}
		for _, el := range x.Elems {
			v, err := m.eval(el, fr)
			if err != nil {
				return nil, err
			}
			a.Elems = append(a.Elems, v)
		}
		return a, nil
	case *ObjLit:
		o := &Obj{Pairs: map[string]Val{}}
		for i, k := range x.Keys {
			v, err := m.eval(x.Vals[i], fr)
			if err != nil {
				return nil, err
			}
			if _, dup := o.Pairs[k]; !dup {
				o.Pairs[k] = v
			}
		}
		return o, nil
	case *Return:
		v, err := m.eval(x.E, fr)
		if err != nil {
			return nil, err
		}
		return nil, &retSignal{v}
	case *ArgRef:
		a, ok := fr.get(specialArgs)
		if !ok {
			return nil, &Decline{"\\ outside a function"}
		}
		arr := a.(*Arr)
		np, _ := fr.get(specialNParams)
		switch x.Kind {
		case "\\":
			if len(arr.Elems) < 1 {
				if np.(int) >= 1 {
					return nil, &Decline{"\\ with fewer arguments than parameters (nil padding is undocumented)"}
				}
				// only the current call's arguments are visible: nothing was received
				return nil, &Err{"NameErr", "name `\\1` is not defined"}
			}
			return arr.Elems[0], nil
		case "\\N":
			if x.N > len(arr.Elems) {
				if x.N <= np.(int) {
					return nil, &Decline{"\\N with fewer arguments than parameters (nil padding is undocumented)"}
				}
				return nil, &Err{"NameErr", fmt.Sprintf("name `\\%d` is not defined", x.N)}
			}
			return arr.Elems[x.N-1], nil
		case "\\0":
			if len(arr.Elems) < np.(int) {
				return nil, &Decline{"\\0 with fewer arguments than parameters (nil padding is undocumented)"}
			}
			return &Arr{Elems: append([]Val{}, arr.Elems...)}, nil
		case "\\_":
			k, _ := fr.get(specialKw)
			return k, nil
		case "\\_.keys", "\\_.values", "\\_.items":
			// the keyword arguments received by this call, listed in key order however they were passed
			k, _ := fr.get(specialKw)
			var ks []string
			for n := range k.(*Obj).Pairs {
				ks = append(ks, n)
			}
			sort.Strings(ks)
			out := &Arr{}
			for _, n := range ks {
				switch x.Kind {
				case "\\_.keys":
					out.Elems = append(out.Elems, Str(n))
				case "\\_.values":
					out.Elems = append(out.Elems, k.(*Obj).Pairs[n])
				default:
					out.Elems = append(out.Elems, &Arr{Elems: []Val{Str(n), k.(*Obj).Pairs[n]}})
				}
			}
			return out, nil
		case "\\name":
			k, _ := fr.get(specialKw)
			if v, ok := k.(*Obj).Pairs[x.Name]; ok {
				return v, nil
			}
			return nil, &Err{"NameErr", "name `\\" + x.Name + "` is not defined"}
		}
	case *AnonChain:
		recv, err := m.firstArg(fr)
		if err != nil {
			return nil, err
		}
		if x.Prop == "p" {
			s, err := Inspect(recv)
			if err != nil {
				return nil, err
			}
			m.Out = append(m.Out, s)
			return Nil{}, nil
		}
		return m.propCall(recv, x.Prop, nil, nil, nil)
	case *Call:
		cv, err := m.eval(x.Callee, fr)
		if err != nil {
			return nil, err
		}
		pos, kw, order, err := m.evalArgs(x.Args, x.Trail, fr)
		if err != nil {
			return nil, err
		}
		c, ok := cv.(*Clo)
		if !ok {
			return nil, &Decline{"calling a non-function"}
		}
		return m.call(c, pos, kw, order)
	case *PropCall:
		recv, err := m.eval(x.Recv, fr)
		if err != nil {
			return nil, err
		}
		pos, kw, order, err := m.evalArgs(x.Args, nil, fr)
		if err != nil {
			return nil, err
		}
		return m.propCall(recv, x.Prop, pos, kw, order)
	case *IndexCall:
		recv, err := m.eval(x.Recv, fr)
		if err != nil {
			return nil, err
		}
		o, ok := recv.(*Obj)
		if !ok {
			return nil, &Decline{"index on a non-object"}
		}
		pv, ok := o.Pairs[x.Prop]
		if !ok {
			return nil, &Decline{"index of an absent property then call"}
		}
		pos, kw, order, err := m.evalArgs(x.Args, nil, fr)
		if err != nil {
			return nil, err
		}
		c, ok := pv.(*Clo)
		if !ok {
			return nil, &Decline{"calling a non-function"}
		}
		return m.call(c, pos, kw, order) // no receiver is prepended
	case *LitCall:
		recv, err := m.eval(x.Recv, fr)
		if err != nil {
			return nil, err
		}
		c := &Clo{Fn: x.Fn, Env: &Frame{Vars: map[string]Val{}, Outer: fr}}
		return m.literalCall(c, recv)
	case *VarCall:
		recv, err := m.eval(x.Recv, fr)
		if err != nil {
			return nil, err
		}
		fv, err := m.eval(&Var{x.Var}, fr)
		if err != nil {
			return nil, err
		}
		c, ok := fv.(*Clo)
		if !ok {
			return nil, &Decline{"variable call of a non-function"}
		}
		return m.literalCall(c, recv)
	}
	return nil, &Decline{fmt.Sprintf("unknown node %T", e)}
}

func (m *Machine) literalCall(c *Clo, recv Val) (Val, error) {
	n := len(c.Fn.Params)
	if c.Fn.Method {
		n++
	}
	if arr, ok := recv.(*Arr); ok && n > 1 {
		return m.call(c, arr.Elems, map[string]Val{}, nil)
	}
	return m.call(c, []Val{recv}, map[string]Val{}, nil)
}

func (m *Machine) propCall(recv Val, prop string, pos []Val, kw map[string]Val, order []string) (Val, error) {
	o, ok := recv.(*Obj)
	if !ok {
		return nil, &Decline{"property call on a non-object"}
	}
	pv, ok := o.Pairs[prop]
	if !ok {
		return nil, &Err{"NoPropErr", "property `" + prop + "` is not defined."}
	}
	c, ok := pv.(*Clo)
	if !ok {
		return pv, nil // non-callable: returned as is, arguments ignored
	}
	if kw == nil {
		kw = map[string]Val{}
	}
	// the receiver is passed as the first argument
	return m.call(c, append([]Val{recv}, pos...), kw, order)
}
