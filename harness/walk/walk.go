// Package walk is a structural monitor over live interpreter data: it walks everything
// reachable from a scope (exported fields only) and computes a shallow fingerprint per
// Go pointer, so that a later walk can tell which existing object changed.
package walk

import (
	"fmt"
	"math"
	"reflect"
	"sort"
	"strings"

	"github.com/Syuparn/pangaea/object"
)

// ID is the identity of an object (its Go pointer).
type ID uintptr

func idOf(o object.PanObject) ID {
	if o == nil {
		return 0
	}
	v := reflect.ValueOf(o)
	if v.Kind() == reflect.Ptr {
		return ID(v.Pointer())
	}
	return 0
}

// Snapshot maps object identity to its shallow fingerprint; it keeps every visited
// object alive so that an identity is never reused for a new object.
type Snapshot struct {
	FP   map[ID]string
	Obj  map[ID]object.PanObject
	Errs []string // *object.PanErr values found stored inside other values (C07 residue scan)
	envs map[*object.Env]bool
	// StopEnv is a frame the walk never enters (e.g. the const env with the built-ins).
	StopEnv *object.Env
	// NoProtos: do not follow Proto() edges (residue scan of data only).
	NoProtos bool
}

// New returns an empty snapshot.
func New() *Snapshot {
	return &Snapshot{FP: map[ID]string{}, Obj: map[ID]object.PanObject{}, envs: map[*object.Env]bool{}}
}

func pid(o object.PanObject) string {
	if o == nil {
		return "<go-nil>"
	}
	return fmt.Sprintf("%T@%x", o, uintptr(idOf(o)))
}

// Exempt reports objects that legitimately change over time (iterators).
func Exempt(o object.PanObject) bool {
	switch v := o.(type) {
	case *object.PanFunc:
		return v.FuncKind == object.IterFunc
	case *object.PanBuiltInIter:
		return true
	case *object.PanIO:
		return true
	}
	return false
}

// IncludeStack adds the stack-trace text of error objects to their fingerprint (C19).
var IncludeStack = false

// Fingerprint is the shallow structural fingerprint of one object.
func Fingerprint(o object.PanObject) string {
	switch v := o.(type) {
	case nil:
		return "go-nil"
	case *object.PanInt:
		return fmt.Sprintf("int %d proto=%s", v.Value, pid(v.Proto()))
	case *object.PanFloat:
		return fmt.Sprintf("float %x proto=%s", math.Float64bits(v.Value), pid(v.Proto()))
	case *object.PanStr:
		return fmt.Sprintf("str %q proto=%s", v.Value, pid(v.Proto()))
	case *object.PanBool:
		return fmt.Sprintf("bool %v", v.Value)
	case *object.PanNil:
		return "nil"
	case *object.PanArr:
		var b strings.Builder
		fmt.Fprintf(&b, "arr len=%d proto=%s [", len(v.Elems), pid(v.Proto()))
		for _, e := range v.Elems {
			b.WriteString(pid(e) + " ")
		}
		return b.String() + "]"
	case *object.PanObj:
		var b strings.Builder
		fmt.Fprintf(&b, "obj proto=%s {", pid(v.Proto()))
		if v.Pairs != nil {
			keys := make([]uint64, 0, len(*v.Pairs))
			for k := range *v.Pairs {
				keys = append(keys, uint64(k))
			}
			sort.Slice(keys, func(i, j int) bool { return keys[i] < keys[j] })
			for _, k := range keys {
				p := (*v.Pairs)[object.SymHash(k)]
				fmt.Fprintf(&b, "%x:%s=%s ", k, keyText(p.Key), pid(p.Value))
			}
		}
		b.WriteString("} keys=")
		if v.Keys != nil {
			fmt.Fprintf(&b, "%x", *v.Keys)
		}
		b.WriteString(" private=")
		if v.PrivateKeys != nil {
			fmt.Fprintf(&b, "%x", *v.PrivateKeys)
		}
		return b.String()
	case *object.PanMap:
		var b strings.Builder
		fmt.Fprintf(&b, "map proto=%s order=", pid(v.Proto()))
		if v.HashKeys != nil {
			for _, h := range *v.HashKeys {
				fmt.Fprintf(&b, "%s/%x ", h.Type, h.Value)
				if v.Pairs != nil {
					if p, ok := (*v.Pairs)[h]; ok {
						fmt.Fprintf(&b, "(%s=%s) ", pid(p.Key), pid(p.Value))
					}
				}
			}
		}
		if v.Pairs != nil {
			fmt.Fprintf(&b, "n=%d ", len(*v.Pairs))
		}
		b.WriteString("nonhashable=[")
		if v.NonHashablePairs != nil {
			for _, p := range *v.NonHashablePairs {
				fmt.Fprintf(&b, "%s=%s ", pid(p.Key), pid(p.Value))
			}
		}
		return b.String() + "]"
	case *object.PanRange:
		return fmt.Sprintf("range %s:%s:%s proto=%s", pid(v.Start), pid(v.Stop), pid(v.Step), pid(v.Proto()))
	case *object.PanFunc:
		if v.FuncKind == object.IterFunc {
			return "iter (exempt)"
		}
		return fmt.Sprintf("func kind=%d env=%p code=%s", v.FuncKind, v.Env, v.FuncWrapper.String())
	case *object.PanErr:
		if IncludeStack {
			return fmt.Sprintf("err %s %q proto=%s stack=%q", v.ErrKind, v.Msg, pid(v.Proto()), v.StackTrace)
		}
		return fmt.Sprintf("err %s %q proto=%s", v.ErrKind, v.Msg, pid(v.Proto()))
	case *object.PanErrWrapper:
		// a wrapped (caught) error is a value a program holds: the report it would print when raised again is part of it
		return fmt.Sprintf("errwrapper %s %q proto=%s stack=%q", v.ErrKind, v.Msg, pid(v.PanErr.Proto()), v.PanErr.StackTrace)
	case *object.PanBuiltIn:
		return "builtin"
	case *object.PanBuiltInIter:
		return "builtin-iter (exempt)"
	}
	return fmt.Sprintf("%T", o)
}

func keyText(k object.PanObject) string {
	if s, ok := k.(*object.PanStr); ok {
		return s.Value
	}
	return pid(k)
}

// Walk visits everything reachable from the roots and records fingerprints.
func (s *Snapshot) Walk(roots ...object.PanObject) {
	for _, r := range roots {
		s.visit(r, false)
	}
}

// WalkEnv visits everything reachable from the variables of env (and its outer frames up to stop).
func (s *Snapshot) WalkEnv(env *object.Env, stop *object.Env) {
	for e := env; e != nil && e != stop; e = e.Outer() {
		s.visitEnv(e)
	}
}

func (s *Snapshot) visitEnv(e *object.Env) {
	if e == nil || s.envs[e] || e == s.StopEnv {
		return
	}
	s.envs[e] = true
	for _, v := range e.Store {
		s.visit(v, false)
	}
	if e.Outer() != nil {
		s.visitEnv(e.Outer())
	}
}

func (s *Snapshot) visit(o object.PanObject, inside bool) {
	if o == nil {
		return
	}
	id := idOf(o)
	if id == 0 {
		return
	}
	if pe, ok := o.(*object.PanErr); ok && inside {
		if len(s.Errs) < 20 {
			s.Errs = append(s.Errs, pe.Inspect())
		}
	}
	if _, seen := s.FP[id]; seen {
		return
	}
	s.FP[id] = Fingerprint(o)
	s.Obj[id] = o
	switch v := o.(type) {
	case *object.PanArr:
		for _, e := range v.Elems {
			s.visit(e, true)
		}
		s.visitProto(v.Proto())
	case *object.PanObj:
		if v.Pairs != nil {
			for _, p := range *v.Pairs {
				s.visit(p.Key, true)
				s.visit(p.Value, true)
			}
		}
		s.visitProto(v.Proto())
	case *object.PanMap:
		if v.Pairs != nil {
			for _, p := range *v.Pairs {
				s.visit(p.Key, true)
				s.visit(p.Value, true)
			}
		}
		if v.NonHashablePairs != nil {
			for _, p := range *v.NonHashablePairs {
				s.visit(p.Key, true)
				s.visit(p.Value, true)
			}
		}
		s.visitProto(v.Proto())
	case *object.PanRange:
		s.visit(v.Start, true)
		s.visit(v.Stop, true)
		s.visit(v.Step, true)
		s.visitProto(v.Proto())
	case *object.PanFunc:
		if v.Env != nil {
			s.visitEnv(v.Env)
		}
		if a := v.FuncWrapper.Args(); a != nil {
			s.visit(a, false)
		}
		if k := v.FuncWrapper.Kwargs(); k != nil {
			s.visit(k, false)
		}
	case *object.PanBuiltInIter:
		if v.Env != nil {
			s.visitEnv(v.Env)
		}
	case *object.PanInt:
		s.visitProto(v.Proto())
	case *object.PanFloat:
		s.visitProto(v.Proto())
	case *object.PanStr:
		s.visitProto(v.Proto())
	}
}

func (s *Snapshot) visitProto(p object.PanObject) {
	if s.NoProtos {
		return
	}
	s.visit(p, false)
}

// Diff reports objects of old whose fingerprint differs in now (objects only in now are new).
type Change struct {
	Obj    object.PanObject
	Before string
	After  string
}

// Diff compares the fingerprints of objects known to old against a fresh fingerprint.
func (s *Snapshot) Diff() []Change {
	var out []Change
	for id, fp := range s.FP {
		o := s.Obj[id]
		if Exempt(o) {
			continue
		}
		now := Fingerprint(o)
		if now != fp {
			out = append(out, Change{Obj: o, Before: fp, After: now})
		}
	}
	return out
}

// Refresh re-records fingerprints (after a reported change) so one mutation is reported once.
func (s *Snapshot) Refresh() {
	for id := range s.FP {
		s.FP[id] = Fingerprint(s.Obj[id])
	}
}

// ResetEnvs lets the next WalkEnv revisit frames (their variables may be rebound).
func (s *Snapshot) ResetEnvs() { s.envs = map[*object.Env]bool{} }
