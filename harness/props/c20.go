package props

import (
	"bytes"
	"fmt"
	"hash/fnv"
	"io"
	"math/rand"
	"net"
	"net/http"
	"os"
	"os/exec"
	"path/filepath"
	"regexp"
	"runtime"
	"sort"
	"strings"
	"sync"
	"sync/atomic"
	"time"

	"github.com/anishathalye/porcupine"

	"github.com/Syuparn/pangaea/evaluator"
	"github.com/Syuparn/pangaea/object"
	"github.com/Syuparn/pangaea/parser"

	"verif/fw"
	"verif/interp"
)

// C20 — concurrent evaluations do not race on interpreter-wide state.
// Oracles: (a) Go race detector over real goroutines (race-built workers), (b) the runtime's
// own concurrent-map detector in plain workers with H2 yield points, (c) porcupine over
// recorded intern/lookup histories, (d) functional results of every concurrent evaluation.

type lockedBuf struct {
	mu sync.Mutex
	b  bytes.Buffer
}

func (l *lockedBuf) Write(p []byte) (int, error) {
	l.mu.Lock()
	defer l.mu.Unlock()
	if l.b.Len() > 1<<20 {
		l.b.Reset()
	}
	return l.b.Write(p)
}

// evalPlain parses and evaluates without installing any monitor (goroutine-safe on the harness side).
func evalPlain(ip *interp.Interp, src string, env *object.Env) (ins string, errs string) {
	defer func() {
		if r := recover(); r != nil {
			errs = fmt.Sprint("PANIC: ", r)
		}
	}()
	prog, err := parser.Parse(parser.NewReader(strings.NewReader(src), "<c20>"))
	if err != nil {
		return "", "parse: " + err.Error()
	}
	if env == nil {
		env = object.NewEnclosedEnv(ip.Const)
	}
	v := evaluator.Eval(prog, env)
	if v == nil {
		return "", "GO-NIL"
	}
	if e, ok := v.(*object.PanErr); ok {
		return "", "err: " + e.Inspect()
	}
	return v.Inspect(), ""
}

type c20prog struct{ src, want string }

func c20program(rng *rand.Rand, u string) c20prog {
	switch rng.Intn(20) {
	case 16, 17:
		// names, keys and strs longer than any table threshold one might think of (130 … 600 bytes)
		long := strings.Repeat("l", 130+rng.Intn(470)) + "_" + u
		switch rng.Intn(3) {
		case 0:
			return c20prog{fmt.Sprintf("%s := 3; {%s: %s}.%s + 1", long, long, long, long), "4"}
		case 1:
			return c20prog{fmt.Sprintf("%%{\"%s\": 5}[\"%s\"] if \"%s\" == \"%s\"", long, long, long, long), "5"}
		default:
			return c20prog{fmt.Sprintf("`{\"%s\": 6}`.decJSON.keys[0].len", long), fmt.Sprint(len(long))}
		}
	case 18, 19:
		// regex-backed Str props with patterns the process has not compiled before
		switch rng.Intn(4) {
		case 0:
			return c20prog{fmt.Sprintf("\"  userName-%s  \".trim.sub(\"-%s$\", \"\").snake", u, u), `"user_name"`}
		case 1:
			return c20prog{fmt.Sprintf("\"a%sb%sc\" / \"%s\"", u, u, u), `["a", "b", "c"]`}
		case 2:
			return c20prog{fmt.Sprintf("\"x-%s-y\".match(`x-(%s)-y`)[1]", u, u), fmt.Sprintf(`"%s"`, u)}
		default:
			return c20prog{fmt.Sprintf("\"%s%s\".sub(`(%s)+`, \"z\")", u, u, u), `"z"`}
		}
	case 11, 12:
		// calls with many positional arguments (\N of arities the process may not have seen yet)
		k := 10 + rng.Intn(70)
		var args []string
		for i := 1; i <= k; i++ {
			args = append(args, fmt.Sprint(i))
		}
		return c20prog{fmt.Sprintf("{[\\9, \\%d, \\0.len]}(%s)", k, strings.Join(args, ", ")), fmt.Sprintf("[9, %d, %d]", k, k)}
	case 13:
		m := []string{"dummy", "dummy_native"}[rng.Intn(2)]
		return c20prog{fmt.Sprintf("import(\"%s\").message", m), `"This is a dummy module."`}
	case 14:
		if rng.Intn(8) != 0 {
			return c20prog{"m := import(\"dummy\"); n := import(\"dummy_native\"); m.message == n.message", "true"}
		}
		// (the http module evaluates a sizeable native source: kept rare)
		return c20prog{"import(\"http\").keys", `["C", "Client", "Response", "S", "Server"]`}
	case 15:
		return c20prog{fmt.Sprintf("{|| invite!(\"%s\"); message.len}()", []string{"dummy", "dummy_native"}[rng.Intn(2)]), "23"}
	case 0:
		return c20prog{fmt.Sprintf("v_%s := 1; w_%s := v_%s + 1; {k_%s: w_%s}.k_%s", u, u, u, u, u, u), "2"}
	case 1:
		return c20prog{fmt.Sprintf("`{\"j_%s\": 5}`.decJSON.j_%s", u, u), "5"}
	case 2:
		return c20prog{fmt.Sprintf("{|a_%s: 1| a_%s}(a_%s: 7)", u, u, u), "7"}
	case 3:
		return c20prog{fmt.Sprintf("'s_%s", u), fmt.Sprintf(`"s_%s"`, u)}
	case 4:
		return c20prog{fmt.Sprintf(`"e_%s := 3; f_%s := 4".evalEnv.keys`, u, u), fmt.Sprintf(`["e_%s", "f_%s"]`, u, u)}
	case 5:
		return c20prog{fmt.Sprintf(`"g_%s := 5; g_%s".eval`, u, u), "5"}
	case 6:
		return c20prog{"[1, 2, 3]@{|x| x * 2}.sum", "12"}
	case 7:
		return c20prog{fmt.Sprintf("{b_%s: 1, a_%s: 2}.keys", u, u), fmt.Sprintf(`["a_%s", "b_%s"]`, u, u)}
	case 8:
		return c20prog{fmt.Sprintf("{m_%s: 1}.S", u), "`" + fmt.Sprintf(`{"m_%s": 1}`, u) + "`"}
	case 9:
		return c20prog{fmt.Sprintf(`"x_%s := 1; y_%s := x_%s".evalEnv.y_%s`, u, u, u, u), "1"}
	default:
		return c20prog{fmt.Sprintf("o_%s := {p_%s: 3}; o_%s.bear.p_%s + (1:4).A.len", u, u, u, u), "6"}
	}
}

var c20yield atomic.Int64

func c20installYield() {
	object.SetVerifPoint(func(string) {
		n := c20yield.Add(1)
		switch {
		case n%13 == 0:
			time.Sleep(time.Duration(20+n%180) * time.Microsecond)
		case n%2 == 0:
			runtime.Gosched()
		}
	})
}

// concurrent scopes: G goroutines × iters evaluations in separate scopes.
func c20concurrentScopes(ip *interp.Interp, tag string, G, iters int, seed int64) (evals int, symbols int, bad []string) {
	var wg sync.WaitGroup
	var mu sync.Mutex
	for g := 0; g < G; g++ {
		wg.Add(1)
		go func(g int) {
			defer wg.Done()
			rng := rand.New(rand.NewSource(seed + int64(g)*7919))
			for i := 0; i < iters; i++ {
				p := c20program(rng, fmt.Sprintf("%s_%d_%d", tag, g, i))
				ins, errs := evalPlain(ip, p.src, nil)
				if errs != "" || ins != p.want {
					mu.Lock()
					if len(bad) < 5 {
						bad = append(bad, fmt.Sprintf("%s → %s%s, want %s", p.src, ins, errs, p.want))
					}
					mu.Unlock()
				}
			}
		}(g)
	}
	wg.Wait()
	return G * iters, G * iters * 2, bad
}

// ---- porcupine model of the intern table
type c20in struct {
	intern bool
	key    string
}
type c20out struct {
	hash  uint64
	found bool
	str   string
}

func fnv64(s string) uint64 {
	h := fnv.New64a()
	h.Write([]byte(s))
	return h.Sum64()
}

var c20model = porcupine.Model{
	Partition: func(h []porcupine.Operation) [][]porcupine.Operation {
		m := map[string][]porcupine.Operation{}
		var keys []string
		for _, op := range h {
			k := op.Input.(c20in).key
			if _, ok := m[k]; !ok {
				keys = append(keys, k)
			}
			m[k] = append(m[k], op)
		}
		var out [][]porcupine.Operation
		for _, k := range keys {
			out = append(out, m[k])
		}
		return out
	},
	Init: func() interface{} { return false },
	Step: func(state, input, output interface{}) (bool, interface{}) {
		in, out, interned := input.(c20in), output.(c20out), state.(bool)
		if in.intern {
			return out.hash == fnv64(in.key), true
		}
		if out.found != interned {
			return false, interned
		}
		return !out.found || out.str == in.key, interned
	},
	DescribeOperation: func(input, output interface{}) string {
		in, out := input.(c20in), output.(c20out)
		if in.intern {
			return fmt.Sprintf("Intern(%s)→%x", in.key, out.hash)
		}
		return fmt.Sprintf("Lookup(%s)→(%v,%q)", in.key, out.found, out.str)
	},
}

func c20history(tag string, G, opsPer, nkeys int, seed int64) (ops []porcupine.Operation, overlaps int) {
	var clock atomic.Int64
	var mu sync.Mutex
	var wg sync.WaitGroup
	start := make(chan struct{})
	for g := 0; g < G; g++ {
		wg.Add(1)
		go func(g int) {
			defer wg.Done()
			rng := rand.New(rand.NewSource(seed + int64(g)*104729))
			var mine []porcupine.Operation
			<-start
			for i := 0; i < opsPer; i++ {
				key := fmt.Sprintf("%s_k%d", tag, rng.Intn(nkeys))
				in := c20in{intern: rng.Intn(3) == 0, key: key}
				var out c20out
				t0 := clock.Add(1)
				if in.intern {
					out.hash = object.GetSymHash(key)
				} else {
					o, ok := object.SymHash2Str(fnv64(key))
					out.found = ok
					if ok && o != nil {
						if ps, isStr := o.(*object.PanStr); isStr {
							out.str = ps.Value
						}
					}
				}
				t1 := clock.Add(1)
				mine = append(mine, porcupine.Operation{ClientId: g, Input: in, Call: t0, Output: out, Return: t1})
			}
			mu.Lock()
			ops = append(ops, mine...)
			mu.Unlock()
		}(g)
	}
	close(start)
	wg.Wait()
	// count intern ∥ lookup overlaps on one key
	for i := range ops {
		a := ops[i]
		if !a.Input.(c20in).intern {
			continue
		}
		for j := range ops {
			b := ops[j]
			if b.Input.(c20in).intern || b.Input.(c20in).key != a.Input.(c20in).key {
				continue
			}
			if a.Call < b.Return && b.Call < a.Return {
				overlaps++
			}
		}
	}
	return ops, overlaps
}

// c20burst: G goroutines are released together on one fresh key per round; each interns the key and
// immediately converts the hash back. The per-key sub-histories (2·G operations) go to porcupine;
// a lookup that misses after the same goroutine's intern returned is also counted directly.
func c20burst(tag string, G, rounds int) (ops []porcupine.Operation, lostOwn int, firstLost string) {
	var clock atomic.Int64
	var gen atomic.Int64
	var arrived atomic.Int64
	var mu sync.Mutex
	var wg sync.WaitGroup
	for g := 0; g < G; g++ {
		wg.Add(1)
		go func(g int) {
			defer wg.Done()
			var mine []porcupine.Operation
			lost := 0
			first := ""
			for r := 0; r < rounds; r++ {
				// spin barrier: everybody starts round r at (nearly) the same instant
				if arrived.Add(1) == int64(G) {
					arrived.Store(0)
					gen.Add(1)
				} else {
					for gen.Load() <= int64(r) {
						runtime.Gosched()
					}
				}
				key := fmt.Sprintf("%s_b%d", tag, r)
				t0 := clock.Add(1)
				h := object.GetSymHash(key)
				t1 := clock.Add(1)
				mine = append(mine, porcupine.Operation{ClientId: g, Input: c20in{intern: true, key: key}, Call: t0, Output: c20out{hash: h}, Return: t1})
				t2 := clock.Add(1)
				o, ok := object.SymHash2Str(h)
				t3 := clock.Add(1)
				out := c20out{found: ok}
				if ok && o != nil {
					if ps, isStr := o.(*object.PanStr); isStr {
						out.str = ps.Value
					}
				}
				if !ok || out.str != key {
					lost++
					if first == "" {
						first = key
					}
				}
				mine = append(mine, porcupine.Operation{ClientId: g, Input: c20in{key: key}, Call: t2, Output: out, Return: t3})
			}
			mu.Lock()
			ops = append(ops, mine...)
			lostOwn += lost
			if firstLost == "" {
				firstLost = first
			}
			mu.Unlock()
		}(g)
	}
	wg.Wait()
	return
}

// ---- HTTP workload
func freePort() int {
	l, err := net.Listen("tcp", "127.0.0.1:0")
	if err != nil {
		return 0
	}
	defer l.Close()
	return l.Addr().(*net.TCPAddr).Port
}

func c20http(ip *interp.Interp, tag string, clients, reqs int, seed int64) (done int, bad []string, skipped string) {
	port := freePort()
	if port == 0 {
		return 0, nil, "no loopback port"
	}
	env := object.NewEnclosedEnv(ip.Const)
	script := fmt.Sprintf("invite!(\"http\")\n"+
		"stop := Server.serve(\n"+
		"  S.post(\"j\") {|req| d := req.body.decJSON; Response.new(status: 200, body: d.keys.S, headers: d)},\n"+
		"  S.get(\"e/:id\") {|req| (\"h_\" + req.params.id + \" := 1; i_\" + req.params.id + \" := 2\").evalEnv.keys.S},\n"+
		"  background: true, url: \"127.0.0.1:%d\")\n1", port)
	if _, errs := evalPlain(ip, script, env); errs != "" {
		return 0, []string{"server script: " + errs}, ""
	}
	base := fmt.Sprintf("http://127.0.0.1:%d", port)
	up := false
	for i := 0; i < 200; i++ {
		c, err := net.DialTimeout("tcp", fmt.Sprintf("127.0.0.1:%d", port), 100*time.Millisecond)
		if err == nil {
			c.Close()
			up = true
			break
		}
		time.Sleep(10 * time.Millisecond)
	}
	if !up {
		return 0, nil, "server did not come up"
	}
	var wg sync.WaitGroup
	var mu sync.Mutex
	var n atomic.Int64
	addBad := func(s string) {
		mu.Lock()
		if len(bad) < 5 {
			bad = append(bad, s)
		}
		mu.Unlock()
	}
	stopMain := make(chan struct{})
	// the main script keeps evaluating evalEnv with new identifiers while handlers run
	wg.Add(1)
	go func() {
		defer wg.Done()
		rng := rand.New(rand.NewSource(seed))
		for i := 0; ; i++ {
			select {
			case <-stopMain:
				return
			default:
			}
			p := c20program(rng, fmt.Sprintf("%s_main_%d", tag, i))
			if ins, errs := evalPlain(ip, p.src, nil); errs != "" || ins != p.want {
				addBad(fmt.Sprintf("main: %s → %s%s, want %s", p.src, ins, errs, p.want))
			}
			// … and goes on with its own top-level statements, in the scope in which the handlers were written
			// (what a script or REPL session does after starting a background server)
			ms := fmt.Sprintf("top_%s_%d := %d\ntop_%s_%d + 1", tag, i, i, tag, i)
			if ins, errs := evalPlain(ip, ms, env); errs != "" || ins != fmt.Sprint(i+1) {
				addBad(fmt.Sprintf("main (server scope): %s → %s%s, want %d", ms, ins, errs, i+1))
			}
		}
	}()
	var cw sync.WaitGroup
	httpc := &http.Client{Timeout: 20 * time.Second}
	for c := 0; c < clients; c++ {
		cw.Add(1)
		go func(c int) {
			defer cw.Done()
			for i := 0; i < reqs; i++ {
				u := fmt.Sprintf("%s_%d_%d", tag, c, i)
				if i%2 == 0 {
					hk := "Hk" + strings.ReplaceAll(u, "_", "x")
					body := fmt.Sprintf(`{"%s": "v%d"}`, hk, i)
					rq, _ := http.NewRequest("POST", base+"/j?p"+hk+"=1", strings.NewReader(body))
					rq.Header.Set("Content-Type", "application/json")
					rq.Header.Set("X-Req-"+hk, "1")
					resp, err := httpc.Do(rq)
					if err != nil {
						addBad("POST: " + err.Error())
						continue
					}
					b, _ := io.ReadAll(resp.Body)
					resp.Body.Close()
					if resp.StatusCode != 200 || resp.Header.Get(hk) != fmt.Sprintf("v%d", i) || !strings.Contains(string(b), hk) {
						addBad(fmt.Sprintf("POST %s → %d header=%q body=%s", body, resp.StatusCode, resp.Header.Get(hk), b))
					}
				} else {
					id := strings.ReplaceAll(u, "_", "x")
					// every request carries header and query names the process has never seen
					rq, _ := http.NewRequest("GET", base+"/e/"+id+"?q"+id+"=1&r"+id+"=2", nil)
					rq.Header.Set("X-Trace-"+id, "1")
					rq.Header.Set("X-Span-"+id, "2")
					resp, err := httpc.Do(rq)
					if err != nil {
						addBad("GET: " + err.Error())
						continue
					}
					b, _ := io.ReadAll(resp.Body)
					resp.Body.Close()
					want := fmt.Sprintf(`["h_%s", "i_%s"]`, id, id)
					if resp.StatusCode != 200 || string(b) != want {
						addBad(fmt.Sprintf("GET e/%s → %d %s, want %s", id, resp.StatusCode, b, want))
					}
				}
				n.Add(1)
			}
		}(c)
	}
	cw.Wait()
	close(stopMain)
	wg.Wait()
	evalPlain(ip, "stop()", env)
	return int(n.Load()), bad, ""
}

// ---- race log parsing (driver side)
var raceFrameRe = regexp.MustCompile(`^  (\S+)\(`)

type raceReport struct {
	text   string
	inner  [2]string // innermost /repo frame of each access stack ("" if none)
	inRepo bool
}

func parseRaceLogs(dir string) []raceReport {
	files, _ := filepath.Glob(filepath.Join(dir, "race.*"))
	var out []raceReport
	for _, f := range files {
		b, err := os.ReadFile(f)
		if err != nil {
			continue
		}
		for _, blk := range strings.Split(string(b), "==================") {
			if !strings.Contains(blk, "WARNING: DATA RACE") {
				continue
			}
			r := raceReport{text: strings.TrimSpace(blk)}
			secs := strings.Split(strings.TrimSpace(blk), "\n\n")
			k := 0
			for _, sec := range secs {
				if k >= 2 {
					break
				}
				if !(strings.Contains(sec, " by goroutine ") || strings.Contains(sec, " by main goroutine")) {
					continue
				}
				for _, line := range strings.Split(sec, "\n") {
					m := raceFrameRe.FindStringSubmatch(line)
					if m == nil {
						continue
					}
					fn := m[1]
					if strings.Contains(fn, "github.com/Syuparn/pangaea/") || strings.Contains(fn, "github.com/macrat/simplexer") {
						r.inner[k] = strings.TrimPrefix(fn, "github.com/Syuparn/pangaea/")
						r.inRepo = true
						break
					}
				}
				k++
			}
			out = append(out, r)
		}
	}
	return out
}

func init() {
	fw.Register(&fw.Prop{
		ID:    "C20",
		Level: "exploration",
		Rule: "real goroutines on the real interpreter: (1) G∈{2,4,8,16} goroutines × short evaluations in separate scopes that intern fresh symbols (identifiers, object keys, JSON keys, kwargs, symbols, Str#eval) and turn symbols back into strings (evalEnv, keys, S); " +
			"(2) fresh -race processes that load the built-ins on 19 goroutines under GOMAXPROCS∈{1,2,4,16}; (3) the http module serving on loopback with JSON-decoding / header-setting / evalEnv handlers under concurrent Go clients while the main script keeps evaluating; " +
			"(4) recorded histories of GetSymHash/SymHash2Str over few fresh keys. Oracles: race detector reports with a /repo frame (race-built workers), runtime `concurrent map` fatal errors (plain workers with H2 yield points), porcupine linearizability per key, functional result of every evaluation/request. " +
			"distinct = distinct (workload, goroutine count / GOMAXPROCS / client count, round) configurations executed; non-trivial = the configuration interned new symbols concurrently (or, for histories, contained ≥1 intern∥lookup overlap)" +
			" Added: calls with 10–80 positional arguments and standard-module imports in every workload; each fresh -race process ends with a first-time burst (8 goroutines doing every once-per-process thing at the same instant). Sixth round: the http workload's main script also continues in the server's own scope (top-level assignments while handlers run).",
		Assumptions: []string{
			"race detection is happens-before based: it reports races on executed paths whatever the timing, but only on executed paths; schedules are sampled, not enumerated",
			"race reports without any /repo frame in either access stack (net/http, echo) are counted but not judged",
			"the intern table's sequential specification: Intern(s) returns FNV-1a(s) and makes s known; Lookup(h) returns (s,true) iff s is known",
		},
		Workers:   func(string) int { return 16 },
		RaceShard: func(shard, n int) bool { return shard < 12 },
		Env: func(string) []string {
			return []string{"GORACE=halt_on_error=0 log_path=$VERIF_TMP/race"}
		},
		CaseTimeout: 300 * time.Second,
		Floor: func(m *fw.Merged) string {
			if m.Counters["concurrent_evaluations_race_build"] < 1000 || m.Counters["histories_checked"] < 20 || m.Counters["intern_lookup_overlaps"] < 1 || m.Counters["http_requests"] < 50 {
				return fmt.Sprintf("observed too little: %v", m.Counters)
			}
			return ""
		},
		Post: c20post,
		Run:  runC20,
	})
}

func c20post(d *fw.Driver, m *fw.Merged) {
	reps := parseRaceLogs(d.TmpDir)
	foreign := 0
	byKey := map[string]int{}
	first := map[string]string{}
	for _, r := range reps {
		if !r.inRepo {
			foreign++
			continue
		}
		fns := []string{r.inner[0], r.inner[1]}
		sort.Strings(fns)
		key := "C20|race|" + fns[0] + " <-> " + fns[1]
		byKey[key]++
		if _, ok := first[key]; !ok {
			first[key] = r.text
		}
	}
	for k, n := range byKey {
		t := first[k]
		if len(t) > 3000 {
			t = t[:3000]
		}
		for i := 0; i < n; i++ {
			if i == 0 {
				m.AddViolation(k, t, "race detector", map[string]any{"report": t})
			} else {
				m.Violations[k].Count++
			}
		}
	}
	m.Extra["race_reports_total"] = len(reps)
	m.Extra["race_reports_without_repo_frame"] = foreign
	m.Extra["race_reports_distinct_in_repo"] = len(byKey)
}

func runC20(w *fw.W) {
	rounds := w.Pick(2, 10)
	scale := w.Pick(1, 4)
	var ip *interp.Interp
	out := &lockedBuf{}
	setup := func() {
		if ip == nil {
			ip = interp.New()
			ip.Const.InjectIO(strings.NewReader(""), out) // once, before any goroutine starts
		}
	}
	tagOf := func() string { return fmt.Sprintf("t%dx%dx%d", w.Seed, w.Index(), os.Getpid()) }
	for r := 0; r < rounds; r++ {
		for slot := 0; slot < 16; slot++ {
			if !w.Take() {
				continue
			}
			race := slot < 12
			if race != fw.RaceBuild && w.Only < 0 {
				// the slot layout guarantees race slots land on race-built workers (16 workers)
				w.Begin("slot/binary mismatch", nil)
				w.End(fw.Result{Verdict: fw.Inconclusive, Reason: "slot-binary-mismatch"})
				continue
			}
			seed := w.Rand().Int63()
			switch {
			case slot < 8 || slot == 12 || slot == 13:
				G := []int{2, 4, 8, 16}[slot%4]
				iters := 250 * scale
				label := "concurrent scopes (race build)"
				counter := "concurrent_evaluations_race_build"
				if !race {
					label = "concurrent scopes (plain build, yield points)"
					counter = "concurrent_evaluations_yield_points"
					iters *= 4
				}
				w.Begin(fmt.Sprintf("%s G=%d round=%d", label, G, r), map[string]any{"workload": label, "G": G, "iters": iters, "seed": seed})
				setup()
				if !race {
					c20installYield()
				}
				n, syms, bad := c20concurrentScopes(ip, tagOf(), G, iters, seed)
				res := fw.Result{Verdict: fw.Held, Evals: n, Counters: map[string]int{counter: n, "symbols_interned_concurrently": syms},
					DKeys:  []string{fmt.Sprintf("%s|G=%d|r=%d", label, G, r)},
					Sample: fmt.Sprintf("%s: %d goroutines × %d evaluations, all results as expected", label, G, iters)}
				if len(bad) > 0 {
					res.Verdict, res.VKey, res.Detail = fw.Violated, "C20|functional|concurrent-evaluation-wrong-result", strings.Join(bad, "\n")
				}
				w.End(res)
			case slot == 8 || slot == 9:
				clients := []int{8, 32}[slot-8] * scale
				if clients > 64 {
					clients = 64
				}
				reqs := 12
				w.Begin(fmt.Sprintf("http module clients=%d round=%d", clients, r), map[string]any{"workload": "http", "clients": clients, "seed": seed})
				setup()
				n, bad, skipped := c20http(ip, tagOf(), clients, reqs, seed)
				res := fw.Result{Verdict: fw.Held, Evals: n, Counters: map[string]int{"http_requests": n},
					DKeys:  []string{fmt.Sprintf("http|clients=%d|r=%d", clients, r)},
					Sample: fmt.Sprintf("http module: %d concurrent clients × %d requests (JSON keys → response headers, evalEnv), main script evaluating meanwhile", clients, reqs)}
				if skipped != "" {
					res = fw.Result{Verdict: fw.Inconclusive, Reason: "http:" + skipped}
				} else if len(bad) > 0 {
					res.Verdict, res.VKey, res.Detail = fw.Violated, "C20|functional|http-wrong-response", strings.Join(bad, "\n")
				}
				w.End(res)
			case slot == 10 || slot == 11:
				w.Begin(fmt.Sprintf("start-up processes round=%d", r), map[string]any{"workload": "startup"})
				self, _ := os.Executable()
				k := 0
				var bad []string
				for _, procs := range []int{1, 2, 4, 16} {
					for rep := 0; rep < 3*scale; rep++ {
						cmd := exec.Command(self, "debug", "startup")
						cmd.Env = append(os.Environ(), fmt.Sprintf("GOMAXPROCS=%d", procs))
						b, err := cmd.CombinedOutput()
						k++
						if err != nil || !strings.Contains(string(b), "startup-ok 12") {
							s := string(b)
							if len(s) > 600 {
								s = s[len(s)-600:]
							}
							bad = append(bad, fmt.Sprintf("GOMAXPROCS=%d: %v %s", procs, err, s))
						}
					}
				}
				res := fw.Result{Verdict: fw.Held, Evals: k, Counters: map[string]int{"startup_processes_race_build": k},
					DKeys:  []string{fmt.Sprintf("startup|slot=%d|r=%d", slot, r)},
					Sample: fmt.Sprintf("%d fresh -race processes loading built-ins on 19 goroutines under GOMAXPROCS 1/2/4/16", k)}
				if len(bad) > 0 {
					res.Verdict, res.VKey, res.Detail = fw.Violated, "C20|startup|process-failed", strings.Join(bad[:1], "\n")
				}
				w.End(res)
			default: // 14, 15: porcupine histories
				nh := 40 * scale
				w.Begin(fmt.Sprintf("symbol-table histories round=%d", r), map[string]any{"workload": "porcupine", "histories": nh, "seed": seed})
				setup()
				c20installYield()
				var vs violSet
				okN, unknown, overl, totalOps := 0, 0, 0, 0
				for h := 0; h < nh; h++ {
					G := 3 + h%6
					ops, ov := c20history(fmt.Sprintf("%s_h%d", tagOf(), h), G, 14, 2+h%3, seed+int64(h))
					overl += ov
					totalOps += len(ops)
					resu, info := porcupine.CheckOperationsVerbose(c20model, ops, 60*time.Second)
					switch resu {
					case porcupine.Ok:
						okN++
					case porcupine.Unknown:
						unknown++
					default:
						_ = info
						var lines []string
						sort.Slice(ops, func(i, j int) bool { return ops[i].Call < ops[j].Call })
						for _, op := range ops {
							lines = append(lines, fmt.Sprintf("g%d [%d,%d] %s", op.ClientId, op.Call, op.Return, c20model.DescribeOperation(op.Input, op.Output)))
						}
						vs.add("C20|linearizability|intern-table-history-not-linearizable", strings.Join(lines, "\n"), lines)
					}
				}
				// burst histories: one fresh key per round, all goroutines released together
				object.SetVerifPoint(nil)
				rounds := 6000 * scale
				bops, lostOwn, firstLost := c20burst(tagOf()+"_burst", 8, rounds)
				totalOps += len(bops)
				bres, _ := porcupine.CheckOperationsVerbose(c20model, bops, 120*time.Second)
				switch {
				case lostOwn > 0:
					vs.add("C20|linearizability|interned-symbol-not-found-by-its-own-interner", fmt.Sprintf("%d time(s) GetSymHash returned a hash that SymHash2Str (called next by the same goroutine) does not know; first key %q (8 goroutines released together on a fresh key, %d rounds)", lostOwn, firstLost, rounds), firstLost)
				case bres == porcupine.Illegal:
					vs.add("C20|linearizability|intern-table-history-not-linearizable", fmt.Sprintf("burst history over %d fresh keys is not linearizable", rounds), nil)
				case bres == porcupine.Unknown:
					unknown++
				default:
					okN++
				}
				nh++
				res := fw.Result{Verdict: fw.Held, Evals: totalOps, Counters: map[string]int{"histories_checked": nh, "histories_linearizable": okN, "burst_rounds": rounds,
					"histories_unknown": unknown, "intern_lookup_overlaps": overl, "history_operations": totalOps},
					DKeys:  []string{fmt.Sprintf("histories|slot=%d|r=%d", slot, r)},
					Sample: fmt.Sprintf("%d histories (3–8 goroutines, 2–4 fresh keys, %d ops) → %d linearizable, %d unknown; %d intern∥lookup overlaps", nh, totalOps, okN, unknown, overl)}
				if overl == 0 {
					res.DKeys = nil
				}
				vs.finish(&res)
				if unknown > 0 && res.Verdict == fw.Held {
					res.Verdict, res.Reason = fw.Inconclusive, "porcupine-timeout"
				}
				w.End(res)
			}
		}
	}
}

// DebugStartup is the body of a fresh start-up sample process.
func DebugStartup() {
	ip := interp.New()
	ins, errs := evalPlain(ip, "[1, 2, 3]@{|x| x * 2}.sum", nil)
	// first-time burst: things a process does once (first import of each standard module, first call of each
	// arity, first use of names) done by 8 evaluations at the same moment, each in its own scope
	type pw struct{ src, want string }
	var progs []pw
	for _, m := range []string{"dummy", "dummy_native"} {
		progs = append(progs, pw{fmt.Sprintf("import(\"%s\").message", m), `"This is a dummy module."`})
		progs = append(progs, pw{fmt.Sprintf("{|| invite!(\"%s\"); message.len}()", m), "23"})
	}
	progs = append(progs, pw{"import(\"http\").keys.len", "5"})
	for k := 10; k <= 45; k += 7 {
		var args []string
		for i := 1; i <= k; i++ {
			args = append(args, fmt.Sprint(i))
		}
		progs = append(progs, pw{fmt.Sprintf("{[\\9, \\%d, \\0.len]}(%s)", k, strings.Join(args, ", ")), fmt.Sprintf("[9, %d, %d]", k, k)})
	}
	progs = append(progs, pw{"{firsttime_a: 1, firsttime_b: 2}.keys", `["firsttime_a", "firsttime_b"]`}, pw{"`{\"firsttime_j\": 5}`.decJSON.firsttime_j", "5"})
	var wg sync.WaitGroup
	var mu sync.Mutex
	var bad []string
	start := make(chan struct{})
	for g := 0; g < 8; g++ {
		wg.Add(1)
		go func(g int) {
			defer wg.Done()
			<-start
			for i := range progs {
				p := progs[(i+g*3)%len(progs)]
				got, e := evalPlain(ip, p.src, nil)
				if e != "" || got != p.want {
					mu.Lock()
					bad = append(bad, fmt.Sprintf("%s → %s %s, want %s", p.src, got, e, p.want))
					mu.Unlock()
				}
			}
		}(g)
	}
	close(start)
	wg.Wait()
	if len(bad) > 0 {
		fmt.Println("startup-burst-failed", bad[0])
		return
	}
	fmt.Println("startup-ok", ins, errs)
}
