package props

import (
	"fmt"

	"verif/fw"
	"verif/interp"
)

// DebugPool prints the pool (pvcheck debug pool).
func DebugPool() {
	ip := interp.New()
	p, skipped := BuildPool(ip, true)
	for _, v := range p.Vals {
		fmt.Printf("%-5s %-7s %-40s => %s\n", v.Name, v.Family, v.Src, interp.SafeInspect(v.Val))
	}
	for _, s := range skipped {
		fmt.Println("SKIPPED:", s)
	}
}

func init() {
	fw.CounterHook = func() map[string]int {
		return map[string]int{"interp_source_runs": interp.RunCount, "interp_source_parse_errors": interp.ParseErrCount}
	}
}
