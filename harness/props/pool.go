package props

import (
	"fmt"
	"strings"

	"github.com/Syuparn/pangaea/object"

	"verif/interp"
)

// PoolVal is one user-reachable value of the shared value pool (DESIGN §2.4):
// it is created by evaluating Pangaea source on the real interpreter.
type PoolVal struct {
	Name   string // variable name it is bound to (v0, v1, …)
	Src    string // the expression that created it
	Family string // int float str bool nil arr obj map range func iter either errw proto other
	Tags   map[string]bool
	Val    object.PanObject
}

func (p *PoolVal) Has(tag string) bool { return p.Tags[tag] }

type poolSpec struct {
	src    string
	family string
	tags   string
}

// poolPrelude defines helper prototypes used by descendants (same prototype for several values).
const poolPrelude = `
PInt := Int.bear
PStr := Str.bear({})
PFloat := Float.bear
PArr := Arr.bear
PIntT := Int.bear({B: m{true}})
PIntF := Int.bear({B: m{false}})
PStrF := Str.bear({B: m{false}})
PArrT := Arr.bear({B: m{true}})
inf := 1.0e308 * 10.0
nan := inf - inf
gen := <{|i| yield i if i < 3; recur(i + 1)}>
objB0 := {a: 1, B: m{false}}
objB1 := {B: m{true}}
objBint := {B: m{1}}
objBnil := {a: 1, B: m{nil}}
objBstr := {B: m{"x"}}
`

// two 150-byte strs that differ in one character in the middle
var longStrA = strings.Repeat("m", 75) + "A" + strings.Repeat("n", 74)
var longStrB = strings.Repeat("m", 75) + "B" + strings.Repeat("n", 74)

var poolSpecs = []poolSpec{
	// ints
	{"0", "int", "zero"}, {"1", "int", ""}, {"-1", "int", ""}, {"2", "int", ""}, {"-2", "int", ""}, {"7", "int", ""},
	{"63", "int", ""}, {"64", "int", ""}, {"2147483648", "int", "big"}, {"-2147483648", "int", "big"},
	{"9007199254740992", "int", "big"}, {"9007199254740993", "int", "big"}, {"9223372036854775807", "int", "extreme big"},
	{"-9223372036854775807", "int", "extreme big"}, {"(-9223372036854775807 - 1)", "int", "extreme big"},
	// floats
	{"0.0", "float", "zero"}, {"1.5", "float", ""}, {"-1.5", "float", ""}, {"1.0", "float", ""}, {"2.0", "float", ""}, {"1.0e308", "float", ""},
	{"0.1", "float", ""}, {"(0.0 * -1.0)", "float", "zero negzero"}, {"0.3", "float", ""}, {"(0.1 + 0.2)", "float", ""}, {"1.0e-10", "float", ""}, {"2.0e-10", "float", ""}, {"inf", "float", "inf"}, {"-inf", "float", "inf"}, {"nan", "float", "nan"},
	// strs
	{`""`, "str", "zero"}, {`"a"`, "str", ""}, {`"abc"`, "str", ""}, {`"ab"`, "str", ""}, {`"b"`, "str", ""}, {`"日本語"`, "str", ""}, {`"a\nb"`, "str", ""},
	{`"\"q\""`, "str", ""}, {`"0"`, "str", ""}, {`"len"`, "str", ""}, {`'sym`, "str", ""}, {`"1"`, "str", ""}, {`"A"`, "str", ""}, {`/~"a"`, "str", "rawbytes"}, {`/~"b"`, "str", "rawbytes"}, {`"\xff"`, "str", "rawbytes"},
	{`"` + longStrA + `"`, "str", "long"}, {`"` + longStrB + `"`, "str", "long"},
	// nil, bools
	{"nil", "nil", "zero"}, {"true", "bool", ""}, {"false", "bool", "zero"},
	// arrs
	{"[]", "arr", "zero"}, {"[1]", "arr", ""}, {"[1, 2, 3]", "arr", ""}, {"[[1], [2, [3]]]", "arr", ""}, {"[nil]", "arr", ""},
	{"[1.0]", "arr", ""}, {`["a"]`, "arr", ""}, {"[true]", "arr", ""}, {"[2]", "arr", ""}, {"[3]", "arr", ""}, {"[1, 0]", "arr", ""}, {"[true, false]", "arr", ""}, {"[2, [3, true]]", "arr", ""}, {"[2, [3, 1]]", "arr", ""}, {"[nan]", "arr", "nan"}, {"[1, 2]", "arr", ""}, {"[{a: 1}]", "arr", ""},
	// objs
	{"{}", "obj", "zero"}, {"{a: 1}", "obj", ""}, {"{_p: 1}", "obj", ""}, {"{a: {b: 2}}", "obj", ""}, {"{a: 1, b: 2}", "obj", ""},
	{"{a: 1}.bear", "obj", "desc"}, {"{a: 1}.bear({b: 2})", "obj", "desc"}, {"{a: [1, 2]}", "obj", ""}, {"{a: 2}", "obj", ""}, {"{a: [1, 0]}", "obj", ""}, {"{a: [true, false]}", "obj", ""}, {"{a: true}", "obj", ""},
	{"{_missing: m{|name| name}}", "obj", "user"}, {"objB0", "obj", "user userB"}, {"objB1", "obj", "user userB"},
	{"objBint", "obj", "user userB"}, {"objBnil", "obj", "user userB"}, {"objBstr", "obj", "user userB"},
	// maps
	{"%{}", "map", "zero"}, {"%{1: 2}", "map", ""}, {`%{"a": 1}`, "map", ""}, {"%{[1]: 2}", "map", ""}, {"%{'a: 1}", "map", ""},
	{"%{1: 2, 3: 4}", "map", ""}, {"%{[1]: 'one, [2]: 'two, [3]: 'three}", "map", ""}, {"%{{a: 1}: 1, [2]: 2}", "map", ""}, {"%{'k: [1]}", "map", ""}, {"%{'k: [true]}", "map", ""}, {"%{true: 2}", "map", ""}, {"%{3: 4, 1: 2}", "map", ""}, {"%{{a: 1}: 1}", "map", ""}, {"%{nil: nil}", "map", ""},
	// ranges
	{"(1:3)", "range", ""}, {"(nil:nil:-1)", "range", ""}, {"('a:'d)", "range", ""}, {"(3:1:0)", "range", ""}, {"(1:3:1)", "range", ""},
	{"(nil:nil:nil)", "range", "zero"}, {"(1:3:nil)", "range", ""}, {"(3:1)", "range", ""}, {"(1:4:-1)", "range", ""}, {"(-1:-4)", "range", ""}, {"(5:0:2)", "range", ""},
	// funcs
	{"{|x| x}", "func", ""}, {"m{|y| y}", "func", ""}, {"{|x| x}", "func", ""}, {"Int['+]", "func", "builtin"}, {"{|x, k: 1| x + k}", "func", ""},
	// iters
	{"gen.new(0)", "iter", ""}, {"gen", "iter", ""}, {"[1, 2]._iter", "iter", "builtin"},
	// Either and wrapped errors
	{"1.try", "either", ""}, {"2.try", "either", ""}, {"1.try./(0)", "either", "eerr"}, {"nil.try", "either", ""},
	{`"a".try`, "either", ""}, {"1.try./(0).err", "errw", ""}, {`1.try.nope.err`, "errw", ""}, {"[1].try.at().err", "errw", ""},
	// typed descendants (same prototype for comparable ones)
	{"PInt.new(3)", "int", "desc"}, {"PInt.new(3)", "int", "desc"}, {"PInt.new(4)", "int", "desc"}, {"PInt.new(0)", "int", "desc zero"},
	{"Int.bear.new(3)", "int", "desc"},
	{`PStr.new("s")`, "str", "desc"}, {`PStr.new("s")`, "str", "desc"}, {`PStr.new("t")`, "str", "desc"}, {`PStr.new("")`, "str", "desc zero"},
	{"PFloat.new(1.5)", "float", "desc"}, {"PFloat.new(1.5)", "float", "desc"}, {"PFloat.new(2.5)", "float", "desc"},
	{"PArr.new([1])", "arr", "desc"}, {"PArr.new([1])", "arr", "desc"}, {"PArr.new([])", "arr", "desc zero"},
	// descendants whose prototype overrides B (the truth of the payload and of B disagree)
	{"PIntT.new(0)", "int", "desc userB"}, {"PIntF.new(7)", "int", "desc userB"}, {`PStrF.new("x")`, "str", "desc userB"}, {"PArrT.new([])", "arr", "desc userB"},
}

// prototypes reachable from the const env; used by C01/C06/C12 (not by C18's laws).
var poolProtoNames = []string{
	"Int", "Float", "Num", "Nil", "Str", "Arr", "Range", "Func", "Iter", "Iterable", "Comparable", "Wrappable", "Match",
	"Obj", "BaseObj", "Map", "Diamond", "Kernel", "JSON", "Either", "EitherVal", "EitherErr", "Err", "AssertionErr",
	"FileNotFoundErr", "NameErr", "NoPropErr", "NotImplementedErr", "StopIterErr", "SyntaxErr", "TypeErr", "ValueErr", "ZeroDivisionErr",
}

// Pool is a built pool bound into one scope.
type Pool struct {
	Vals []*PoolVal
	Env  *object.Env // scope holding prelude names and v0..vN
	IP   *interp.Interp
}

// BuildPool evaluates the pool on the interpreter. Entries whose source does not
// evaluate to a value on this tree are reported in skipped (and left out).
func BuildPool(ip *interp.Interp, withProtos bool) (*Pool, []string) {
	env := object.NewEnclosedEnv(ip.Const)
	o := ip.Run(poolPrelude, interp.Options{Env: env, Fuel: -1})
	var skipped []string
	if !o.OK() {
		skipped = append(skipped, "prelude: "+o.Outcome())
	}
	p := &Pool{Env: env, IP: ip}
	specs := poolSpecs
	if withProtos {
		for _, n := range poolProtoNames {
			specs = append(specs, poolSpec{n, "proto", "proto"})
		}
	}
	for _, s := range specs {
		name := fmt.Sprintf("v%d", len(p.Vals))
		o := ip.Run(name+" := "+s.src, interp.Options{Env: env, Fuel: -1})
		if !o.OK() {
			skipped = append(skipped, s.src+" → "+o.Outcome())
			continue
		}
		tags := map[string]bool{}
		for _, t := range strings.Fields(s.tags) {
			tags[t] = true
		}
		p.Vals = append(p.Vals, &PoolVal{Name: name, Src: s.src, Family: s.family, Tags: tags, Val: o.Val})
	}
	return p, skipped
}

// Scope returns a fresh scope enclosed in the pool scope (pool names visible).
func (p *Pool) Scope() *object.Env { return object.NewEnclosedEnv(p.Env) }
