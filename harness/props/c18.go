package props

import (
	"fmt"
	"strings"

	"github.com/Syuparn/pangaea/object"

	"verif/fw"
	"verif/interp"
)

// C18 — equality and ordering obey their algebraic laws.
// Oracle: the laws themselves, evaluated on the real interpreter over the value pool.

func c18tag(v *PoolVal) string {
	t := v.Family
	if v.Has("desc") {
		t += "+desc"
	}
	if v.Has("nan") {
		t += "+nan"
	}
	return t
}

func asBool(o *interp.Obs) (val bool, ok bool) {
	if !o.OK() {
		return false, false
	}
	if o.Val == object.BuiltInTrue {
		return true, true
	}
	if o.Val == object.BuiltInFalse {
		return false, true
	}
	return false, false
}

type c18ctx struct {
	ip   *interp.Interp
	pool *Pool
	t    map[string]*interp.Template
}

func (c *c18ctx) tmpl(src string) *interp.Template {
	if t, ok := c.t[src]; ok {
		return t
	}
	t := interp.MustTemplate(src)
	c.t[src] = t
	return t
}

func (c *c18ctx) eval(src string, bind map[string]object.PanObject) *interp.Obs {
	return c.ip.EvalT(c.tmpl(src), bind, 200000)
}

type violSet struct {
	list []fw.SubViolation
	seen map[string]bool
}

func (v *violSet) add(key, detail string, replay any) {
	if v.seen == nil {
		v.seen = map[string]bool{}
	}
	if v.seen[key] {
		return
	}
	v.seen[key] = true
	v.list = append(v.list, fw.SubViolation{VKey: key, Detail: detail, Replay: replay})
}

func (v *violSet) finish(r *fw.Result) {
	if len(v.list) > 0 {
		r.Verdict = fw.Violated
		r.VKey, r.Detail, r.Replay = v.list[0].VKey, v.list[0].Detail, v.list[0].Replay
		r.More = v.list[1:]
	}
}

func orderFamily(v *PoolVal) string {
	switch v.Family {
	case "int", "bool":
		return "int"
	case "float":
		if v.Has("nan") {
			return ""
		}
		return "float"
	case "str":
		return "str"
	}
	return ""
}

func init() {
	fw.Register(&fw.Prop{
		ID:    "C18",
		Level: "exploration",
		Rule: "all ordered pairs of the value pool (every built-in data type, nested containers, Either and wrapped-error values, funcs, iterators, typed descendants made with new; prototypes excluded) " +
			"under the equality laws (reflexive except NaN, symmetric, != is the negation); all pairs and triples of each ordered family (ints+bools+Int descendants, floats incl. ±Inf, strings) under trichotomy, <=/>= as unions, " +
			"antisymmetry of <=>, transitivity, and max/min/between?/clip agreement; thorough additionally wraps every pool value in an array, an object and a map. " +
			"non-trivial = every judged pair/triple; distinct = distinct (law, pool value names) tuples judged",
		Assumptions: []string{
			"values are drawn from a fixed pool built by evaluating Pangaea source on the interpreter under test (user-reachable values only)",
			"the laws are evaluated by the interpreter itself; no model of which values are equal is used",
			"ordered families are compared within themselves; int vs float is a TypeErr by the language's definition and is not in any family",
		},
		Exhaustive: func(string) bool { return true },
		Floor: func(m *fw.Merged) string {
			if m.Counters["eq_pairs"] < 5000 || m.Counters["order_pairs"] < 800 || m.Counters["order_triples"] < 5000 {
				return fmt.Sprintf("too few judged: eq_pairs=%d order_pairs=%d order_triples=%d", m.Counters["eq_pairs"], m.Counters["order_pairs"], m.Counters["order_triples"])
			}
			return ""
		},
		Run: runC18,
	})
}

func runC18(w *fw.W) {
	var c *c18ctx
	setup := func() {
		if c != nil {
			return
		}
		ip := interp.New()
		pool, _ := BuildPool(ip, false)
		c = &c18ctx{ip: ip, pool: pool, t: map[string]*interp.Template{}}
	}
	// the pool is needed for enumeration in every worker (cheap: ~110 evaluations)
	setup()
	vals := c.pool.Vals

	wrappers := []struct{ name, src string }{{"plain", ""}}
	if w.Thorough() {
		wrappers = append(wrappers, struct{ name, src string }{"arr", "[%s]"}, struct{ name, src string }{"obj", "{k: %s}"},
			struct{ name, src string }{"map", "%%{1: %s}"}, struct{ name, src string }{"nested", "[{k: [%s]}]"})
	}

	// ---- equality laws: one case per (wrapper, row x)
	for _, wr := range wrappers {
		wrap := func(v *PoolVal) object.PanObject {
			if wr.src == "" {
				return v.Val
			}
			o := c.ip.Run(fmt.Sprintf(wr.src, v.Name), interp.Options{Env: c.pool.Scope(), Fuel: -1})
			if !o.OK() {
				return nil
			}
			return o.Val
		}
		for i, x := range vals {
			if !w.Take() {
				continue
			}
			w.Begin(fmt.Sprintf("eq %s row %s (%s)", wr.name, x.Name, x.Src), map[string]any{"wrapper": wr.name, "x": x.Src})
			var vs violSet
			var dks []string
			n := 0
			xv := wrap(x)
			var sample string
			for j := i; j < len(vals) && xv != nil; j++ {
				y := vals[j]
				yv := xv
				if j != i {
					yv = wrap(y)
				}
				if yv == nil {
					continue
				}
				bind := map[string]object.PanObject{"x": xv, "y": yv}
				desc := fmt.Sprintf("x=%s y=%s (wrapper %s)", x.Src, y.Src, wr.name)
				kcls := wr.name + "|" + c18tag(x) + "|" + c18tag(y)
				exy, eyx := c.eval("x == y", bind), c.eval("y == x", bind)
				nxy, nyx := c.eval("x != y", bind), c.eval("y != x", bind)
				n++
				bxy, ok1 := asBool(exy)
				byx, ok2 := asBool(eyx)
				bnxy, ok3 := asBool(nxy)
				bnyx, ok4 := asBool(nyx)
				if !ok1 || !ok2 {
					vs.add("C18|eq|not-a-boolean|"+kcls, fmt.Sprintf("%s: x == y → %s ; y == x → %s", desc, exy.Outcome(), eyx.Outcome()), desc)
					continue
				}
				if !ok3 || !ok4 {
					vs.add("C18|ne|not-a-boolean|"+kcls, fmt.Sprintf("%s: x != y → %s ; y != x → %s", desc, nxy.Outcome(), nyx.Outcome()), desc)
					continue
				}
				if i == j && !x.Has("nan") && !bxy {
					vs.add("C18|eq|not-reflexive|"+kcls, desc+": x == x is false", desc)
				}
				if bxy != byx {
					vs.add("C18|eq|not-symmetric|"+kcls, fmt.Sprintf("%s: x == y is %v but y == x is %v", desc, bxy, byx), desc)
				}
				if bnxy == bxy || bnyx == byx {
					vs.add("C18|ne|not-negation-of-eq|"+kcls, fmt.Sprintf("%s: x == y %v, x != y %v, y == x %v, y != x %v", desc, bxy, bnxy, byx, bnyx), desc)
				}
				dks = append(dks, "eq|"+wr.name+"|"+x.Name+"|"+y.Name)
				if sample == "" && bxy && i != j {
					sample = fmt.Sprintf("%s == %s → true, symmetric, != false ✓", x.Src, y.Src)
				}
			}
			r := fw.Result{Verdict: fw.Held, Evals: 4 * n, DKeys: dks, Counters: map[string]int{"eq_pairs": n}}
			if sample != "" {
				r.Sample = sample
			}
			vs.finish(&r)
			w.End(r)
		}
	}

	// ---- ordering laws: one case per family for pairs + transitivity, then between?/clip triples by row
	fams := map[string][]*PoolVal{}
	for _, v := range vals {
		if f := orderFamily(v); f != "" {
			fams[f] = append(fams[f], v)
		}
	}
	for _, fam := range []string{"int", "float", "str"} {
		fv := fams[fam]
		if w.Take() {
			w.Begin("order pairs+transitivity family "+fam, map[string]any{"family": fam})
			var vs violSet
			var dks []string
			n := len(fv)
			lt := make([][]int8, n) // -1 unknown, 0 false, 1 true
			eq := make([][]int8, n)
			gt := make([][]int8, n)
			pairs := 0
			evals := 0
			for i := range fv {
				lt[i], eq[i], gt[i] = make([]int8, n), make([]int8, n), make([]int8, n)
				for j := range fv {
					lt[i][j], eq[i][j], gt[i][j] = -1, -1, -1
				}
			}
			var sample string
			for i, x := range fv {
				for j, y := range fv {
					bind := map[string]object.PanObject{"x": x.Val, "y": y.Val}
					desc := fmt.Sprintf("x=%s y=%s", x.Src, y.Src)
					kcls := c18tag(x) + "|" + c18tag(y)
					if cp := crossProto(x.Val, y.Val); cp != "" {
						// values of one family whose prototypes differ: keyed by family only
						kcls = fam + "|" + cp
					}
					get := func(src string) (bool, bool) {
						o := c.eval(src, bind)
						evals++
						b, ok := asBool(o)
						if !ok {
							vs.add("C18|order|not-a-boolean|"+src+"|"+kcls, fmt.Sprintf("%s: %s → %s", desc, src, o.Outcome()), desc)
						}
						return b, ok
					}
					l, ok1 := get("x < y")
					e, ok2 := get("x == y")
					g, ok3 := get("x > y")
					le, ok4 := get("x <= y")
					ge, ok5 := get("x >= y")
					if !(ok1 && ok2 && ok3 && ok4 && ok5) {
						continue
					}
					pairs++
					lt[i][j], eq[i][j], gt[i][j] = b2i(l), b2i(e), b2i(g)
					cnt := b2i(l) + b2i(e) + b2i(g)
					if cnt != 1 {
						vs.add("C18|order|trichotomy|"+kcls, fmt.Sprintf("%s: x<y %v, x==y %v, x>y %v (exactly one must hold)", desc, l, e, g), desc)
					}
					if le != (l || e) {
						vs.add("C18|order|le-not-union|"+kcls, fmt.Sprintf("%s: x<=y %v but x<y %v, x==y %v", desc, le, l, e), desc)
					}
					if ge != (g || e) {
						vs.add("C18|order|ge-not-union|"+kcls, fmt.Sprintf("%s: x>=y %v but x>y %v, x==y %v", desc, ge, g, e), desc)
					}
					// <=> antisymmetry, by Go value
					c1, c2 := c.eval("x <=> y", bind), c.eval("y <=> x", bind)
					evals += 2
					i1, okA := c1.Val.(*object.PanInt)
					i2, okB := c2.Val.(*object.PanInt)
					if !c1.OK() || !c2.OK() || !okA || !okB || i1.Value < -1 || i1.Value > 1 {
						vs.add("C18|order|spaceship-not-int|"+kcls, fmt.Sprintf("%s: x<=>y → %s, y<=>x → %s", desc, c1.Outcome(), c2.Outcome()), desc)
					} else {
						if i1.Value != -i2.Value {
							vs.add("C18|order|spaceship-antisymmetry|"+kcls, fmt.Sprintf("%s: x<=>y = %d, y<=>x = %d", desc, i1.Value, i2.Value), desc)
						}
						if (i1.Value == -1) != l || (i1.Value == 1) != g {
							vs.add("C18|order|spaceship-disagrees-with-lt-gt|"+kcls, fmt.Sprintf("%s: x<=>y = %d but x<y %v, x>y %v", desc, i1.Value, l, g), desc)
						}
					}
					// max / min of the pair
					mx, mn := c.eval("[x, y].max", bind), c.eval("[x, y].min", bind)
					evals += 2
					if !mx.OK() || !mn.OK() || (mx.Val != x.Val && mx.Val != y.Val) || (mn.Val != x.Val && mn.Val != y.Val) {
						vs.add("C18|order|max-min-not-an-operand|"+kcls, fmt.Sprintf("%s: max → %s, min → %s", desc, mx.Outcome(), mn.Outcome()), desc)
					} else {
						// max must not be smaller than either operand; min not larger
						if (l && mx.Val != y.Val) || (g && mx.Val != x.Val) {
							vs.add("C18|order|max-disagrees|"+kcls, fmt.Sprintf("%s: x<y %v x>y %v but [x,y].max → %s", desc, l, g, mx.Outcome()), desc)
						}
						if (l && mn.Val != x.Val) || (g && mn.Val != y.Val) {
							vs.add("C18|order|min-disagrees|"+kcls, fmt.Sprintf("%s: x<y %v x>y %v but [x,y].min → %s", desc, l, g, mn.Outcome()), desc)
						}
					}
					dks = append(dks, "ord|"+x.Name+"|"+y.Name)
					if sample == "" && l {
						sample = fmt.Sprintf("%s < %s: trichotomy, unions, <=> antisymmetry, max/min ✓", x.Src, y.Src)
					}
				}
			}
			// transitivity over all triples of the matrix
			triples := 0
			for i := range fv {
				for j := range fv {
					for k := range fv {
						if lt[i][j] < 0 || lt[j][k] < 0 || lt[i][k] < 0 {
							continue
						}
						triples++
						desc := fmt.Sprintf("x=%s y=%s z=%s", fv[i].Src, fv[j].Src, fv[k].Src)
						kcls := c18tag(fv[i]) + "|" + c18tag(fv[j]) + "|" + c18tag(fv[k])
						leIJ := lt[i][j] == 1 || eq[i][j] == 1
						leJK := lt[j][k] == 1 || eq[j][k] == 1
						leIK := lt[i][k] == 1 || eq[i][k] == 1
						if leIJ && leJK && !leIK {
							vs.add("C18|order|le-not-transitive|"+kcls, desc+": x<=y and y<=z but not x<=z", desc)
						}
						if lt[i][j] == 1 && lt[j][k] == 1 && lt[i][k] != 1 {
							vs.add("C18|order|lt-not-transitive|"+kcls, desc+": x<y and y<z but not x<z", desc)
						}
						if eq[i][j] == 1 && eq[j][k] == 1 && eq[i][k] != 1 {
							vs.add("C18|order|eq-not-transitive|"+kcls, desc+": x==y and y==z but not x==z", desc)
						}
					}
				}
			}
			r := fw.Result{Verdict: fw.Held, Evals: evals, DKeys: dks, Counters: map[string]int{"order_pairs": pairs, "order_triples": triples}}
			if sample != "" {
				r.Sample = sample
			}
			vs.finish(&r)
			w.End(r)
		}
		// between? / clip: rows of triples (x = lower bound row)
		for i, x := range fv {
			if !w.Take() {
				continue
			}
			w.Begin(fmt.Sprintf("between?/clip family %s lower=%s", fam, x.Src), map[string]any{"family": fam, "x": x.Src})
			var vs violSet
			var dks []string
			evals, triples := 0, 0
			rng := w.Rand()
			for _, y := range fv {
				for _, z := range fv {
					if !w.Thorough() && rng.Intn(3) != 0 {
						continue // quick: seed-chosen third of the triples
					}
					bind := map[string]object.PanObject{"x": x.Val, "y": y.Val, "z": z.Val}
					desc := fmt.Sprintf("x=%s y=%s z=%s", x.Src, y.Src, z.Src)
					kcls := c18tag(x) + "|" + c18tag(y) + "|" + c18tag(z)
					xy, ok1 := asBool(c.eval("x <= y", bind))
					yz, ok2 := asBool(c.eval("y <= z", bind))
					xz, ok3 := asBool(c.eval("x <= z", bind))
					bt := c.eval("y.between?(x, z)", bind)
					evals += 4
					if !(ok1 && ok2 && ok3) {
						continue // reported by the pairs case
					}
					triples++
					b, okb := asBool(bt)
					if !okb {
						// `&&` returns the deciding operand: accept any value whose truth equals the expectation only if boolean
						vs.add("C18|order|between-not-boolean|"+kcls, fmt.Sprintf("%s: y.between?(x, z) → %s", desc, bt.Outcome()), desc)
					} else if b != (xy && yz) {
						vs.add("C18|order|between-disagrees|"+kcls, fmt.Sprintf("%s: y.between?(x,z) %v but x<=y %v, y<=z %v", desc, b, xy, yz), desc)
					}
					if xz {
						cl := c.eval("y.clip(x, z)", bind)
						evals++
						var want object.PanObject = y.Val
						ylx, _ := asBool(c.eval("y < x", bind))
						ygz, _ := asBool(c.eval("y > z", bind))
						if ylx {
							want = x.Val
						} else if ygz {
							want = z.Val
						}
						if !cl.OK() || cl.Val != want {
							// equal values may be returned instead (x == y): accept an operand equal to want
							okEq := false
							if cl.OK() {
								e, _ := asBool(c.eval("a == b", map[string]object.PanObject{"a": cl.Val, "b": want}))
								okEq = e && (cl.Val == x.Val || cl.Val == y.Val || cl.Val == z.Val)
							}
							if !okEq {
								vs.add("C18|order|clip-disagrees|"+kcls, fmt.Sprintf("%s: y.clip(x,z) → %s, want %s", desc, cl.Outcome(), interp.SafeInspect(want)), desc)
							}
						}
					}
					dks = append(dks, "tri|"+x.Name+"|"+y.Name+"|"+z.Name)
				}
			}
			_ = i
			r := fw.Result{Verdict: fw.Held, Evals: evals, DKeys: dks, Counters: map[string]int{"order_triples": triples}}
			vs.finish(&r)
			w.End(r)
		}
	}
	_ = strings.Join
}

// crossProto classifies a pair of one ordered family whose (payload-carrying) prototypes
// differ: "" when they share the prototype, else cross-proto[-same-payload].
func crossProto(x, y object.PanObject) string {
	var px, py object.PanObject
	same := false
	if a, ok := object.TraceProtoOfInt(x); ok {
		b, ok2 := object.TraceProtoOfInt(y)
		if !ok2 {
			return ""
		}
		px, py, same = a.Proto(), b.Proto(), a.Value == b.Value
	} else if a, ok := object.TraceProtoOfFloat(x); ok {
		b, ok2 := object.TraceProtoOfFloat(y)
		if !ok2 {
			return ""
		}
		px, py, same = a.Proto(), b.Proto(), a.Value == b.Value
	} else if a, ok := object.TraceProtoOfStr(x); ok {
		b, ok2 := object.TraceProtoOfStr(y)
		if !ok2 {
			return ""
		}
		px, py, same = a.Proto(), b.Proto(), a.Value == b.Value
	}
	if px == py {
		return ""
	}
	if same {
		return "cross-proto-same-payload"
	}
	return "cross-proto"
}

func b2i(b bool) int8 {
	if b {
		return 1
	}
	return 0
}
