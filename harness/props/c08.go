package props

import (
	"crypto/sha1"
	"encoding/json"
	"fmt"
	"math/rand"
	"os"
	"os/exec"
	"path/filepath"
	"sort"
	"strings"

	"github.com/Syuparn/pangaea/ast"

	"verif/fw"
	"verif/interp"
)

// C08 — evaluation order is left-to-right and every run is reproducible.
// (a) order templates: markers numbered in the documented evaluation order must be printed
// exactly once in that order; (b) repeated executions (in-process and in fresh processes)
// must give identical observations and identical Eval event traces.

const c08prelude = c07prelude + `g8 := {|a: 0, b: 0, c: 0, d: 0, e: 0, f: 0, g: 0, h: 0| [a, b, c, d, e, f, g, h]}
mo := {_missing: m{|name, a, b, k: 0, j: 0| [name, a, b, k, j]}}
om := {m: m{|a, b, k: 0, j: 0| [a, b, k, j]}}
f2 := {|a, b, k: 0, j: 0| [a, b, k, j]}
gplus := {|acc, x| acc + x}
gplusOf := {|v| {|x| x + v}}
`

type c08tmpl struct {
	name   string
	text   string  // holes «rank:type», rank = documented evaluation rank
	groups [][]int // optional: ranks that may appear in any order relative to each other (pair key/value)
	hashed bool    // involves a hash-ordered mechanism (kwargs, ** operands, pairs)
}

func c08templates() []c08tmpl {
	var ts []c08tmpl
	add := func(name, text string, hashed bool, groups ...[]int) {
		ts = append(ts, c08tmpl{name: name, text: text, hashed: hashed, groups: groups})
	}
	add("method call: receiver, args, kwargs", "«0:o».m(«1:int», «2:int», k: «3:int»)", true)
	add("kwarg written between positionals", "f2(«0:int», k: «2:int», «1:int»)", true)
	add("kwarg written first", "f2(k: «2:int», «0:int», «1:int»)", true)
	add("two kwargs around positionals", "f2(k: «2:int», «0:int», j: «3:int», «1:int»)", true)
	for n := 2; n <= 8; n++ {
		var kws []string
		for i := 0; i < n; i++ {
			kws = append(kws, fmt.Sprintf("%c: «%d:int»", 'a'+i, i))
		}
		add(fmt.Sprintf("%d kwargs on func", n), "g8("+strings.Join(kws, ", ")+")", true)
		// reversed names: written order, not name order, decides
		var rev []string
		for i := 0; i < n; i++ {
			rev = append(rev, fmt.Sprintf("%c: «%d:int»", 'a'+(n-1-i), i))
		}
		add(fmt.Sprintf("%d kwargs on func (names descending)", n), "g8("+strings.Join(rev, ", ")+")", true)
	}
	// one keyword argument per line: same column, decreasing columns, increasing columns
	add("kwargs one per line (same column)", "g8(\n  a: «0:int»,\n  b: «1:int»,\n  c: «2:int»,\n  d: «3:int»,\n  e: «4:int»)", true)
	add("kwargs one per line (names descending, same column)", "g8(\n  e: «0:int»,\n  d: «1:int»,\n  c: «2:int»,\n  b: «3:int»,\n  a: «4:int»)", true)
	add("kwargs one per line (decreasing columns)", "g8(\n        a: «0:int»,\n      b: «1:int»,\n    c: «2:int»,\n  d: «3:int»,\n e: «4:int»)", true)
	add("kwargs one per line (increasing columns)", "g8(\n a: «0:int»,\n  b: «1:int»,\n   c: «2:int»,\n    d: «3:int»,\n     e: «4:int»)", true)
	add("kwargs two per line", "g8(a: «0:int», b: «1:int»,\n  c: «2:int», d: «3:int»,\n  e: «4:int», f: «5:int»)", true)
	add("duplicate kwargs one per line", "g8(\n  a: «0:int»,\n  b: «1:int»,\n  a: «2:int»,\n  b: «3:int»)", true)
	add("func literal defaults one per line", "{|x,\n  a: «0:int»,\n  b: «1:int»,\n  c: «2:int»| [x, a, b, c]}(1)", true)
	add("kwargs on method", "om.m(«0:int», j: «2:int», «1:int», k: «3:int»)", true)
	add("kwargs on _missing callee", "mo.anything(«0:int», j: «2:int», «1:int», k: «3:int»)", true)
	add("kwargs on built-in", "{a: 1, _b: 2}.keys(private?: «0:true»)", true)
	add("kwargs on built-in with args", "[3, 1, 2].join(«0:str», zz: «1:int», yy: «2:int»)", true)
	add("func literal defaults", "{|x, a: «0:int», b: «1:int», c: «2:int», d: «3:int»| [x, a, b, c, d]}(1)", true)
	add("func literal defaults (names descending)", "{|x, d: «0:int», c: «1:int», b: «2:int», a: «3:int»| [x, a, b, c, d]}(1)", true)
	add("duplicate kwargs both evaluated in order", "g8(a: «0:int», b: «1:int», a: «2:int», b: «3:int»)", true)
	add("literal call: receiver, then the literal's keyword defaults", "«0:arr»@{|x, k: «1:int»| x}", true)
	add("literal call: receiver, chain argument, then the literal's defaults (scalar)", "«0:int».{|x, k: «1:int», j: «2:int»| x}", true)
	add("reduce literal call: receiver, chain argument", "«0:arr»$(«1:int»){|a, x, k: 1| a}", true)
	add("trailing literal with defaults after the arguments", "f2(«0:int», «1:int») {|z, k: «2:int»| z}", true)
	add("duplicate object keys both evaluated in order", "{a: «0:int», b: «1:int», a: «2:int», b: «3:int»}", true)
	add("duplicate object keys in three spellings", "{a: «0:int», 'a: «1:int», \"a\": «2:int», a: «3:int»}", true)
	add("duplicate map keys both evaluated (key and value of one pair in either order)", "%{1: «0:int», 1: «1:int», 'k: «2:int», 'k: «3:int»}", true)
	add("duplicate keyword defaults both evaluated", "{|x, a: «0:int», a: «1:int»| [x, a]}(1)", true)
	add("chain argument then args (reduce)", "«0:arr»$(«1:int»)+(«2:int»)", false)
	add("chain argument then args (list)", "«0:arr»@([])+(«1:int»)", false)
	add("literal call receiver then chain arg", "«0:arr»$(«1:int»){|a, x| a + x}", false)
	add("var call receiver then chain arg", "«0:arr»$(«1:int»)^gplus", false)
	add("array elements", "[«0:int», «1:int», «2:int», «3:int»]", false)
	add("array elements with unpack", "[«0:int», *«1:arr», «2:int», *«3:arr»]", false)
	for _, op := range []string{"+", "-", "*", "/", "//", "%", "**", "==", "!=", "<", ">", "<=", ">=", "<=>", "<<", ">>", "/&", "/|", "/^", "===", "!=="} {
		add("infix "+op, "(«0:int» "+op+" «1:int»)", false)
	}
	add("infix nested", "((«0:int» + «1:int») * («2:int» - «3:int»))", false)
	add("range bounds", "(«0:int»:«1:five»:«2:two»)", false)
	add("slice bounds", "«0:arr»[«1:int»:«2:five»:«3:int»]", false)
	add("index", "«0:arr»[«1:int»]", false)
	add("object pairs", "{a: «0:int», b: «1:int», c: «2:int», d: «3:int»}", true)
	add("object pairs (names descending)", "{d: «0:int», c: «1:int», b: «2:int», a: «3:int»}", true)
	add("object pairs then ** operands", "{a: «0:int», b: «1:int», **«2:obj», **«3:obj»}", true)
	add("map pairs (key and value of one pair in either order)", "%{«0:int»: «1:int», «2:str»: «3:int», «4:nil»: «5:int»}", true, []int{0, 1}, []int{2, 3}, []int{4, 5})
	add("map pairs then ** operands", "%{«0:int»: «1:int», **«2:map», **«3:obj»}", true, []int{0, 1}, []int{2}, []int{3})
	add("call with * and ** operands", "f2(*«0:arr», **«1:obj»)", true)
	for _, n := range []int{2, 3, 4, 5, 8, 12, 13, 14, 16, 20, 33} {
		s := `"`
		for i := 0; i < n; i++ {
			s += fmt.Sprintf("p%d#{«%d:int»}", i, i)
		}
		add(fmt.Sprintf("embedded string with %d parts", n), s+`end"`, false)
	}
	add("nested: call in array in object", "{a: [«0:int», f2(«1:int», «2:int», k: «3:int»)], b: «4:int»}", true)
	add("nested: embedded string in kwargs", `f2(«0:int», "x#{«1:int»}y#{«2:int»}", k: "z#{«3:int»}", j: «4:int»)`, true)
	add("nested: receiver chain", "«0:o».m(«1:int», «2:int»)[«3:int»]", false)
	// additional chain contexts: the arguments are written sub-expressions like any other and are evaluated
	// once, in order, whether or not the context ends up skipping / replacing the call
	add("lonely call on nil receiver: args and kwargs", "«0:nil»&.m(«1:int», «2:int», k: «3:int»)", true)
	add("lonely call on nil receiver: chain arg and args", "«0:nil»&.(«1:int»)m(«2:int»)", false)
	add("lonely call on non-nil receiver", "«0:o»&.m(«1:int», «2:int», k: «3:int»)", true)
	add("thoughtful call failing (no such prop)", "«0:int»~.nope(«1:int», k: «2:int»)", true)
	add("thoughtful call", "«0:o»~.m(«1:int», «2:int», k: «3:int»)", true)
	add("strict call", "«0:o»=.m(«1:int», «2:int», k: «3:int»)", true)
	add("lonely list chain with nil elements", "[nil, «0:o», nil]&@m(«1:int», «2:int», k: «3:int»)", true)
	// receiver then chain argument in every chain context and call form: the chain argument is a written
	// sub-expression evaluated once even where the context has no use for its value (scalar chains)
	for _, ch := range []string{"", "&", "~", "="} {
		add("scalar "+ch+". var call: receiver, chain argument", "«0:int»"+ch+".(«1:int»)^idv", false)
		add("scalar "+ch+". literal call: receiver, chain argument", "«0:int»"+ch+".(«1:int»){|x| x}", false)
		add("scalar "+ch+". prop call: receiver, chain argument, args", "«0:o»"+ch+".(«1:int»)m(«2:int», «3:int»)", false)
		add("list "+ch+"@ var call: receiver, chain argument", "«0:arr»"+ch+"@(«1:arr»)^idv", false)
		add("list "+ch+"@ literal call: receiver, chain argument", "«0:arr»"+ch+"@(«1:arr»){|x| x}", false)
		add("list "+ch+"@ prop call: receiver, chain argument, args", "«0:arr»"+ch+"@(«1:arr»)+(«2:int»)", false)
		add("reduce "+ch+"$ var call: receiver, chain argument", "«0:arr»"+ch+"$(«1:int»)^gplus", false)
		add("reduce "+ch+"$ prop call: receiver, chain argument, args", "«0:arr»"+ch+"$(«1:int»)+(«2:int»)", false)
	}
	return ts
}

// value templates: the position that consumed stdin line k / iterator element k is identified by value
var c08valueTemplates = []struct{ name, src, want string }{
	{"stdin lines in array elements", "[<>.S, <>.S, <>.S]", `["L0", "L1", "L2"]`},
	{"stdin lines: positionals then kwargs", "f2(<>.S, k: <>.S, <>.S)", `["L0", "L1", "L2", 0]`},
	{"stdin lines in infix operands", "<>.S + <>.S + <>.S", `"L0L1L2"`},
	{"stdin lines in object pairs", "{b: <>.S, a: <>.S}.values", `["L1", "L0"]`},
	{"stdin lines in embedded string", `"#{<>.S}-#{<>.S}-#{<>.S}"`, `"L0-L1-L2"`},
	{"stdin lines in range bounds", "r := (<>.S:<>.S:<>.S); [r.start, r.stop, r.step]", `["L0", "L1", "L2"]`},
	{"iterator advanced in array elements", "it := [10, 20, 30]._iter; [it.next, it.next, it.next]", "[10, 20, 30]"},
	{"iterator advanced in infix operands", "it := [10, 20, 30]._iter; (it.next * 100) + (it.next - it.next)", "990"},
	{"iterator advanced in call args and kwargs", "it := [1, 2, 3, 4]._iter; f2(it.next, j: it.next, it.next, k: it.next)", "[1, 2, 4, 3]"},
	{"iterator advanced in map pairs", "it := [1, 2, 3, 4]._iter; %{it.next: it.next, it.next: it.next}.A@{|p| p.sum}", "[3, 7]"},
	{"receiver evaluated before arguments", "it := [[5], 0]._iter; it.next[it.next]", "5"},
	{"two ** operands sharing a key: the first wins (call)", "f2(1, 2, **{k: 10, j: 20}, **{k: 11})", "[1, 2, 10, 20]"},
	{"two ** operands sharing a key: the first wins (\\_)", "{|| \\_}(**{a: 1, b: 2}, **{b: 3, c: 4})", `{"a": 1, "b": 2, "c": 4}`},
	{"three ** operands sharing keys", "{|| \\_}(**{a: 1}, **{a: 2, b: 2}, **{a: 3, b: 3, c: 3})", `{"a": 1, "b": 2, "c": 3}`},
	{"explicit keyword beats ** operands", "f2(1, 2, k: 5, **{k: 6, j: 7}, **{j: 8})", "[1, 2, 5, 7]"},
	{"two ** operands sharing a key in an object literal", "{**{a: 1, b: 2}, **{a: 3, c: 4}}", `{"a": 1, "b": 2, "c": 4}`},
	{"two ** operands sharing a key in a map literal", "%{**%{1: 2}, **%{1: 3, 4: 5}}", "%{1: 2, 4: 5}"},
	{"two ** operands sharing a key on a method", "om.m(1, 2, **{k: 10}, **{k: 11, j: 12})", "[1, 2, 10, 12]"},
	{"two ** operands sharing a key on a built-in", "{a: 1, _b: 2}.keys(**{private?: true}, **{private?: false})", `["a", "_b"]`},
}

var c08names = []string{"alpha", "beta", "gamma", "delta", "eps", "zeta", "eta", "theta", "iota", "kappa", "lambda", "mu"}

// programs rich in hash-ordered data; deterministic output is the property under test
func c08reproProgram(rng *rand.Rand) (src string, wantValue string) {
	n := 2 + rng.Intn(11)
	if rng.Intn(2) == 0 {
		n = 5 + rng.Intn(8)
	}
	perm := rng.Perm(len(c08names))[:n]
	var names []string
	for _, i := range perm {
		names = append(names, c08names[i])
	}
	pairs := func(sep string, quote bool) string {
		var p []string
		for i, nm := range names {
			k := nm
			if quote {
				k = `"` + nm + `"`
			}
			p = append(p, fmt.Sprintf("%s%s %d", k, sep, i+1))
		}
		return strings.Join(p, ", ")
	}
	switch rng.Intn(20) {
	case 18, 19:
		// keys whose printed forms tie (floats print six decimals; equal-looking keys of different kinds): printing sorts by the printed key, so ties must be settled by something other than the hash-table layout
		var ps []string
		for i := range names {
			switch rng.Intn(3) {
			case 0:
				ps = append(ps, fmt.Sprintf("1.%07d: %d", i+1, i+1))
			case 1:
				ps = append(ps, fmt.Sprintf("%d.5e-9: %d", i+1, i+1))
			default:
				ps = append(ps, fmt.Sprintf("(0.1 * %d + 0.2): %d", i, i+1))
			}
		}
		return "m := %{" + strings.Join(ps, ", ") + "}\nm.p; m.S.p; m.repr.p; [m].p; {a: m}.p; %{**m}.p; m.keys.p; raise Err.new(m.S)", ""
	case 16, 17:
		// containers compared with == / !=: their elements' own `==` (user-defined, printing) is called in a fixed order
		var xs, ys []string
		for i, nm := range names {
			xs = append(xs, fmt.Sprintf("%s: T.bear({n: %d})", nm, i))
			ys = append(ys, fmt.Sprintf("%s: T.bear({n: %d})", nm, i))
		}
		body := "T := {'==: m{|o| .n.p; true}, '!=: m{|o| .n.p; false}}\n"
		if rng.Intn(2) == 0 {
			return body + "x := {" + strings.Join(xs, ", ") + "}\ny := {" + strings.Join(ys, ", ") + "}\n(x == y).p; (x != y).p; ([x] == [y]).p; x == y", "true"
		}
		qx := strings.ReplaceAll(strings.Join(xs, ", "), ": T", "\": T")
		qx = "\"" + strings.ReplaceAll(qx, ", ", ", \"")
		return body + "x := %{" + qx + "}\ny := %{" + qx + "}\n(x == y).p; (x != y).p; x == y", "true"
	case 0:
		return "({\\_}(" + pairs(":", false) + ")).p; {\\_.keys}(" + pairs(":", false) + ")", ""
	case 1:
		var kw []string
		for i, nm := range names {
			kw = append(kw, fmt.Sprintf("%s: pr(%d)", nm, i+1))
		}
		return "pr := {|v| v.p; v}\n{\\_}(" + strings.Join(kw, ", ") + ")", "?"
	case 2:
		d := names[rng.Intn(n)]
		return fmt.Sprintf("{\\%s}(%s, %s: 999)", d, pairs(":", false), d), fmt.Sprint(indexOf(names, d) + 1)
	case 3:
		d := names[rng.Intn(n)]
		return fmt.Sprintf("{%s, %s: 999}.%s", pairs(":", false), d, d), fmt.Sprint(indexOf(names, d) + 1)
	case 4:
		d := names[rng.Intn(n)]
		return fmt.Sprintf(`%%{%s, "%s": 999}["%s"]`, pairs(":", true), d, d), fmt.Sprint(indexOf(names, d) + 1)
	case 5:
		return "m := %{" + pairs(":", true) + "}\n%{**m}.p; %{**m}.keys.p; %{1: 2, **m}.A", ""
	case 6:
		return "o := {" + pairs(":", false) + "}\n%{**o}.p; {**o}.p; ({\\_}(**o)).p; %{**o}.keys.p; %{1: 2, **o}.A.p; %{**o}.values", ""
	case 7:
		return "o := {" + pairs(":", false) + "}\no.keys.p; o.values.p; o.items.p; o.A.p; o.S.p; o.repr.p; o@{|k, v| k.p}; o == {**o}", "true"
	case 8:
		return "m := %{" + pairs(":", true) + ", [1]: 0, {a: 1}: 0}\nm.keys.p; m.values.p; m.items.p; m.S.p; m.repr.p; m@{|k, v| k.p}; m == %{**m}", "true"
	case 9:
		if rng.Intn(2) == 0 {
			// members whose numbers do not fit (whatever decoding makes of them, it is the same every time)
			var ms []string
			for i, nm := range names {
				ms = append(ms, fmt.Sprintf(`"%s": %d%s`, nm, i+1, []string{"e300", "e19", "e-400", ".5e30", "e40"}[i%5]))
			}
			return "r := nil.try.{|u| `{" + strings.Join(ms, ", ") + "}`.decJSON}\n[r.val, r.err.S].p", ""
		}
		return "`{" + pairs(":", true) + "}`.decJSON.p; `{" + pairs(":", true) + "}`.decJSON.keys", ""
	case 10:
		var asg []string
		for i, nm := range names {
			asg = append(asg, fmt.Sprintf("%s := %d", nm, i))
		}
		return `"` + strings.Join(asg, "; ") + `".evalEnv.p; "` + strings.Join(asg, "; ") + `".evalEnv.keys`, ""
	case 11:
		return "raise Err.new({" + pairs(":", false) + "}.S + %{" + pairs(":", true) + "}.S)", ""
	case 12:
		return "{" + pairs(":", false) + "}.nopeProp(1)", ""
	case 13:
		return "o := {" + pairs(":", false) + "}\n[o.keys, o.bear({zz: 1}).keys, o.bear.proto.keys, o.S.len, JSON.enc(o)]", ""
	case 14:
		return "o := {" + pairs(":", false) + "}\no@{|k, v| [k, v]}.p; o$([]){|acc, kv| acc + [kv[0]]}.p; o.A.T", ""
	default:
		return "f := {|" + strings.ReplaceAll(pairs(":", false), ", ", ", ") + "| \\_}\nf().p; f(" + names[0] + ": 0).keys", ""
	}
}

func indexOf(l []string, s string) int {
	for i, x := range l {
		if x == s {
			return i
		}
	}
	return -1
}

func init() {
	fw.Register(&fw.Prop{
		ID:    "C08",
		Level: "exploration",
		Rule: "(a) order templates: every construct of the statement with marker-printing sub-expressions numbered in the documented order (receiver → chain argument → positional arguments → keyword arguments in written order incl. 2–8 kwargs with ascending/descending names, on func, method, built-in and _missing callees and in func-literal defaults; array elements incl. * unpacks; all non-short-circuit infix operators; range/slice bounds; object and map pairs; ** operands; embedded-string parts 2–5; stdin- and iterator-consuming positions identified by value), each run 6×; " +
			"(b) reproducibility: generated programs rich in hash-ordered data (kwargs 2–12, duplicate kwargs/keys with first-occurrence-wins asserted by value, %{**m}/{**o}/f(**o), keys/values/items/A/S/repr/==, JSON.dec, evalEnv, error messages embedding containers) and corpus programs, each evaluated 24× in-process (64× thorough) and in 3 fresh processes: stdout, value, error, stack trace and the sequence of Eval events must be identical. " +
			"distinct = distinct order templates + distinct reproducibility programs; non-trivial = all markers were printed (order) / the program contains ≥1 hash-ordered construct (reproducibility)" +
			" Added: arguments of lonely/thoughtful/strict calls (nil receiver included), duplicate object/map keys and keyword defaults, 2–3 ** operands sharing keys judged by value; a floor makes the run inconclusive if a generated reproducibility program does not parse. Sixth round: receiver-then-chain-argument order templates for 4 chain contexts × prop / literal / variable call; maps whose float keys print alike in the reproducibility programs.",
		Assumptions: []string{
			"Go randomises every map iteration, so N in-process repetitions sample layouts; for a k-entry hash-ordered construct the chance that N runs coincide by luck is ≤ (1/k!)^(N-1) for small k; templates therefore use ≥5 entries as well as small ones",
			"key and value of one map pair may be evaluated in either order (the statement orders successive pairs)",
			"`if` (condition before branches), `&&`/`||` and ** operands written before literal pairs are not in the statement's list and are not asserted",
		},
		Floor: func(m *fw.Merged) string {
			if m.Counters["repro_generated_not_parsing"] > 0 {
				return fmt.Sprintf("%d generated reproducibility programs do not parse (they observe nothing)", m.Counters["repro_generated_not_parsing"])
			}
			if m.Counters["order_cases_all_markers_seen"] < 80 || m.Counters["repro_programs"] < 150 {
				return fmt.Sprintf("observed too little: %v", m.Counters)
			}
			return ""
		},
		Run: runC08,
	})
}

func runC08(w *fw.W) {
	var ip *interp.Interp
	setup := func() {
		if ip == nil {
			ip = interp.New()
		}
	}
	// (a) order templates
	for _, t := range c08templates() {
		if !w.Take() {
			continue
		}
		setup()
		w.Begin("order "+t.name, map[string]any{"template": t.text})
		expr := c07instantiate(t.text, -1, "R", 0)
		prog := c08prelude + "res := " + expr + "\nres"
		holes := c07holes(t.text)
		groupOf := map[int]int{}
		if len(t.groups) > 0 {
			for gi, g := range t.groups {
				for _, r := range g {
					groupOf[r] = gi
				}
			}
		} else {
			for _, h := range holes {
				groupOf[h.idx] = h.idx
			}
		}
		var vs violSet
		allSeen := 0
		var sample string
		for rep := 0; rep < 6; rep++ {
			o := ip.Run(prog, interp.Options{})
			if o.ParseErr != "" || o.Panic != "" || o.Cutoff != "" {
				vs.add("C08|order|"+t.name+"|abnormal", expr+" → "+o.Outcome()+" "+firstLine(o.ParseErr), prog)
				break
			}
			lines := strings.Fields(o.Stdout)
			count := map[string]int{}
			for _, l := range lines {
				count[l]++
			}
			ok := true
			for _, h := range holes {
				if count[fmt.Sprintf("T%d", h.idx)] != 1 {
					ok = false
				}
			}
			if !ok || len(lines) != len(holes) {
				vs.add("C08|order|"+t.name+"|not-exactly-once", fmt.Sprintf("%s\nprinted %v; every marker T0…T%d must appear exactly once (result %s)", expr, lines, len(holes)-1, o.Outcome()), prog)
				break
			}
			allSeen++
			// group sequence must be non-decreasing
			last := -1
			bad := false
			for _, l := range lines {
				var r int
				fmt.Sscanf(l, "T%d", &r)
				g := groupOf[r]
				if g < last {
					bad = true
				}
				if g > last {
					last = g
				}
			}
			if bad {
				vs.add("C08|order|"+t.name+"|out-of-order", fmt.Sprintf("%s\nevaluated in the order %v, documented order is T0…T%d (run %d of 6)", expr, lines, len(holes)-1, rep+1), prog)
				break
			}
			sample = fmt.Sprintf("%s → %v ✓", expr, lines)
		}
		r := fw.Result{Verdict: fw.Held, Evals: 6, Counters: map[string]int{"order_cases": 1}, DKeys: []string{"order|" + t.name}, Sample: sample}
		if allSeen == 6 {
			r.Counters["order_cases_all_markers_seen"] = 1
		}
		if t.hashed {
			r.Counters["order_cases_hash_ordered"] = 1
		}
		vs.finish(&r)
		w.End(r)
	}
	// value templates
	for _, t := range c08valueTemplates {
		if !w.Take() {
			continue
		}
		setup()
		w.Begin("order-by-value "+t.name, map[string]any{"src": t.src})
		var vs violSet
		for rep := 0; rep < 6; rep++ {
			o := ip.Run(c08prelude+t.src, interp.Options{Stdin: strings.NewReader("L0\nL1\nL2\nL3\n")})
			if !o.OK() || o.Inspect != t.want {
				vs.add("C08|order-by-value|"+t.name, fmt.Sprintf("%s → %s, source order gives %s", t.src, o.Outcome(), t.want), t.src)
				break
			}
		}
		r := fw.Result{Verdict: fw.Held, Evals: 6, Counters: map[string]int{"order_cases": 1, "order_cases_all_markers_seen": 1}, DKeys: []string{"value|" + t.name}, Sample: t.src + " → " + t.want + " ✓"}
		vs.finish(&r)
		w.End(r)
	}

	// (b) reproducibility
	self, _ := os.Executable()
	tmp := os.Getenv("VERIF_TMP")
	N := w.Pick(24, 64)
	K := 3
	var corpus []string
	for _, pat := range []string{"/repo/tests/*.pangaea", "/repo/example/*.pangaea"} {
		m, _ := filepath.Glob(pat)
		sort.Strings(m)
		for _, f := range m {
			b, err := os.ReadFile(f)
			s := string(b)
			if err != nil || strings.Contains(s, "http") || strings.Contains(s, "import") || strings.Contains(s, "invite") || strings.Contains(s, "argv") || strings.Contains(s, "read(") || len(s) > 8000 {
				continue
			}
			corpus = append(corpus, s)
		}
	}
	ngen := w.Pick(240, 4000)
	total := ngen + len(corpus)
	if !w.Thorough() {
		total = ngen + len(corpus)/4
	}
	for pi := 0; pi < total; pi++ {
		if !w.Take() {
			continue
		}
		setup()
		rng := w.Rand()
		var src, want string
		kind := "generated"
		if pi < ngen {
			src, want = c08reproProgram(rng)
		} else {
			kind = "corpus"
			ci := pi - ngen
			if !w.Thorough() {
				ci *= 4
			}
			src = corpus[ci%len(corpus)]
		}
		w.Begin(fmt.Sprintf("repro %s %d", kind, pi), map[string]any{"src": src})
		var vs violSet
		var first ObsJSON
		var firstTrace string
		evalsN := 0
		for rep := 0; rep < N; rep++ {
			h := sha1.New()
			events := 0
			o := ip.Run(src, interp.Options{FileName: "<c19>", Stdin: strings.NewReader("in1\nin2\n"), Events: func(kind string, n ast.Node) {
				events++
				pos := ""
				if s := n.Source(); s != nil {
					pos = fmt.Sprintf("%d:%d", s.Pos.Line, s.Pos.Column)
				}
				fmt.Fprintf(h, "%s@%s;", kind, pos)
			}})
			evalsN++
			got := toObsJSON(o)
			trace := fmt.Sprintf("%x/%d", h.Sum(nil)[:8], events)
			if o.Cutoff != "" {
				break
			}
			if rep == 0 {
				first, firstTrace = got, trace
				if want != "" && want != "?" && (!o.OK() || o.Inspect != want) {
					vs.add("C08|repro|first-occurrence-does-not-win", fmt.Sprintf("%s → %s, the first occurrence gives %s", src, o.Outcome(), want), src)
				}
				continue
			}
			if got != first {
				field, a, b := diffObs(got, first)
				vs.add("C08|repro|"+kind+"|"+field+"-differs-between-runs", fmt.Sprintf("program:\n%s\nrun %d %s:\n%s\nrun 1 %s:\n%s", truncateMid(src, 500), rep+1, field, truncateMid(a, 400), field, truncateMid(b, 400)), src)
				break
			}
			if trace != firstTrace {
				vs.add("C08|repro|"+kind+"|eval-event-trace-differs-between-runs", fmt.Sprintf("program:\n%s\nsame output but the sequence of Eval events differs between run 1 (%s) and run %d (%s)", truncateMid(src, 500), firstTrace, rep+1, trace), src)
				break
			}
		}
		fresh := 0
		if len(vs.list) == 0 && (w.Thorough() || pi%4 == 0) {
			f := filepath.Join(tmp, fmt.Sprintf("c08-%d-%d.pangaea", os.Getpid(), pi))
			os.WriteFile(f, []byte(src), 0o644)
			for k := 0; k < K; k++ {
				out, err := exec.Command(self, "debug", "runone", f).Output()
				var fo ObsJSON
				if err != nil || json.Unmarshal(out, &fo) != nil {
					continue
				}
				fresh++
				if fo != first && first.Cutoff == "" {
					field, a, b := diffObs(fo, first)
					vs.add("C08|repro|"+kind+"|"+field+"-differs-in-a-fresh-process", fmt.Sprintf("program:\n%s\nfresh process %s:\n%s\nin-process %s:\n%s", truncateMid(src, 500), field, truncateMid(a, 400), field, truncateMid(b, 400)), src)
					break
				}
			}
			os.Remove(f)
		}
		r := fw.Result{Verdict: fw.Held, Evals: evalsN + fresh, Counters: map[string]int{"repro_programs": 1, "repro_in_process_runs": evalsN, "repro_fresh_processes": fresh}}
		if kind == "generated" && first.ParseErr != "" {
			r.Counters["repro_generated_not_parsing"] = 1
		}
		if kind == "generated" {
			r.Counters["repro_programs_hash_ordered"] = 1
			r.DKeys = []string{"repro|" + fmt.Sprintf("%x", sha1.Sum([]byte(src)))[:12]}
		} else {
			r.DKeys = []string{"corpus|" + fmt.Sprintf("%x", sha1.Sum([]byte(src)))[:12]}
		}
		if pi%25 == 0 {
			r.Sample = map[string]any{"program": truncateMid(src, 160), "runs_identical": evalsN, "fresh_processes": fresh, "event_trace": firstTrace}
		}
		vs.finish(&r)
		w.End(r)
	}
}
