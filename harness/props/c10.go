package props

import (
	"fmt"
	"math"
	"math/big"
	"math/bits"

	"github.com/Syuparn/pangaea/object"

	"verif/fw"
	"verif/interp"
)

// C10 — integer arithmetic and comparison return the mathematically exact result.
// Oracle: math/big on operands injected as PanInt values, evaluated through parsed
// source (`a + b`) and through the prototype's property (`Int['+](a, b)`).

type c10op struct {
	name  string
	infix *interp.Template
	prop  *interp.Template
}

func sgnBits(x int64) int {
	if x == 0 {
		return 0
	}
	if x == math.MinInt64 {
		return -64
	}
	if x < 0 {
		return -bits.Len64(uint64(-x))
	}
	return bits.Len64(uint64(x))
}

func magClass(z *big.Int) string {
	l := z.BitLen()
	switch {
	case l <= 31:
		return "lt2^31"
	case l <= 53:
		return "lt2^53"
	default:
		return "ge2^53"
	}
}

func signClass(x int64) string {
	switch {
	case x < 0:
		return "neg"
	case x == 0:
		return "zero"
	}
	return "pos"
}

func c10Boundary() []int64 {
	set := map[int64]bool{}
	add := func(v int64) { set[v] = true; set[-v] = true }
	for _, v := range []int64{0, 1, 2, 3, 5, 7, 10, 100, 1000, 3037000499, 3037000500, 3037000501, 2097151, 2097152, 55108, 55109} {
		add(v)
	}
	for _, k := range []uint{7, 8, 15, 16, 31, 32, 52, 53, 54, 62} {
		p := int64(1) << k
		add(p - 1)
		add(p)
		add(p + 1)
	}
	add(math.MaxInt64)
	add(math.MaxInt64 - 1)
	set[math.MinInt64] = true
	set[math.MinInt64+1] = true
	// products / quotients of boundary values
	for _, v := range []int64{math.MaxInt64 / 2, math.MaxInt64 / 3, math.MaxInt64 / 7, (1 << 53) / 3, (1 << 62) / 5} {
		add(v)
		add(v + 1)
	}
	var out []int64
	for v := range set {
		out = append(out, v)
	}
	// deterministic order
	sortInt64(out)
	return out
}

func sortInt64(a []int64) {
	for i := 1; i < len(a); i++ {
		for j := i; j > 0 && a[j] < a[j-1]; j-- {
			a[j], a[j-1] = a[j-1], a[j]
		}
	}
}

var (
	bigMin = big.NewInt(math.MinInt64)
	bigMax = big.NewInt(math.MaxInt64)
)

func fitsInt64(z *big.Int) bool { return z.Cmp(bigMin) >= 0 && z.Cmp(bigMax) <= 0 }

type c10batch struct {
	ip      *interp.Interp
	dk      map[string]struct{}
	viol    []fw.SubViolation
	vseen   map[string]bool
	evals   int
	judged  int
	notFit  int
	zeroDiv int
	sample  []string
}

func (b *c10batch) violate(key, detail string, a, bb int64, op string) {
	if b.vseen[key] {
		return
	}
	b.vseen[key] = true
	b.viol = append(b.viol, fw.SubViolation{VKey: key, Detail: detail,
		Replay: map[string]any{"op": op, "a": a, "b": bb}})
}

// check one operator on one pair through both call forms.
func (b *c10batch) check(op *c10op, a, bv int64) {
	A, B := big.NewInt(a), big.NewInt(bv)
	bind := map[string]object.PanObject{"a": object.NewPanInt(a), "b": object.NewPanInt(bv)}
	forms := []*interp.Template{op.infix, op.prop}
	for fi, t := range forms {
		if t == nil {
			continue
		}
		o := b.ip.EvalT(t, bind, 0)
		b.evals++
		form := []string{"infix", "prop"}[fi]
		keyBase := fmt.Sprintf("C10|%s|a:%s|b:%s", op.name, signClass(a), signClass(bv))
		if o.Panic != "" || o.NilVal {
			b.violate(keyBase+"|host-panic", fmt.Sprintf("%s %d %s %d: %s", form, a, op.name, bv, o.Outcome()), a, bv, op.name)
			continue
		}
		wantZeroDiv := bv == 0 && (op.name == "/" || op.name == "//" || op.name == "%")
		if wantZeroDiv {
			b.zeroDiv++
			if o.Err == nil || o.ErrKind != "ZeroDivisionErr" {
				b.violate(keyBase+"|zero-divisor-no-ZeroDivisionErr", fmt.Sprintf("%s: %d %s 0 → %s, want ZeroDivisionErr", form, a, op.name, o.Outcome()), a, bv, op.name)
			} else {
				b.dk[fmt.Sprintf("%s|%d|zerodiv", op.name, sgnBits(a))] = struct{}{}
			}
			continue
		}
		if op.name == "/" {
			want := float64(a) / float64(bv)
			got, ok := o.Val.(*object.PanFloat)
			b.judged++
			if !ok || math.Float64bits(got.Value) != math.Float64bits(want) {
				b.violate(keyBase+"|float-quotient", fmt.Sprintf("%s: %d / %d → %s, want %v", form, a, bv, o.Outcome(), want), a, bv, op.name)
			}
			b.dk[fmt.Sprintf("/|%d|%d", sgnBits(a), sgnBits(bv))] = struct{}{}
			continue
		}
		var want *big.Int
		switch op.name {
		case "+":
			want = new(big.Int).Add(A, B)
		case "-":
			want = new(big.Int).Sub(A, B)
		case "*":
			want = new(big.Int).Mul(A, B)
		case "neg":
			want = new(big.Int).Neg(A)
		case "**":
			if bv < 0 {
				continue
			}
			if bv > 64 && (a > 1 || a < -1) {
				// |a| ≥ 2 and b > 64: the power does not fit in 64 bits (not judged)
				b.notFit++
				continue
			}
			want = new(big.Int).Exp(A, B, nil)
		case "//":
			// floor division: big.Int.Div is Euclidean; floor = Quo adjusted
			q, r := new(big.Int).QuoRem(A, B, new(big.Int))
			if r.Sign() != 0 && (r.Sign() < 0) != (B.Sign() < 0) {
				q.Sub(q, big.NewInt(1))
			}
			want = q
		case "<=>":
			want = big.NewInt(int64(A.Cmp(B)))
		case "%":
			// remainder conditions: |r| < |b| and b divides a - r
			b.judged++
			got, ok := o.Val.(*object.PanInt)
			if !ok {
				b.violate(keyBase+"|not-int", fmt.Sprintf("%s: %d %% %d → %s", form, a, bv, o.Outcome()), a, bv, op.name)
				continue
			}
			r := big.NewInt(got.Value)
			absr := new(big.Int).Abs(r)
			absb := new(big.Int).Abs(B)
			diff := new(big.Int).Sub(A, r)
			if absr.Cmp(absb) >= 0 || new(big.Int).Rem(diff, B).Sign() != 0 {
				b.violate(keyBase+"|remainder-conditions", fmt.Sprintf("%s: %d %% %d → %d violates |r|<|b| ∧ b | a−r", form, a, bv, got.Value), a, bv, op.name)
			}
			b.dk[fmt.Sprintf("%%|%d|%d", sgnBits(a), sgnBits(bv))] = struct{}{}
			continue
		}
		if !fitsInt64(want) {
			b.notFit++
			continue // outside the statement's proviso; only "no crash" (checked above)
		}
		b.judged++
		got, ok := o.Val.(*object.PanInt)
		if !ok || got.Value != want.Int64() {
			b.violate(fmt.Sprintf("%s|result:%s", keyBase, magClass(want)),
				fmt.Sprintf("%s: a=%d b=%d: %s → %s, exact %s", form, a, bv, t.Src, o.Outcome(), want.String()), a, bv, op.name)
		} else if len(b.sample) < 3 && want.BitLen() > 53 {
			b.sample = append(b.sample, fmt.Sprintf("a=%d b=%d %s = %s ✓", a, bv, t.Src, want.String()))
		}
		b.dk[fmt.Sprintf("%s|%d|%d", op.name, sgnBits(a), sgnBits(bv))] = struct{}{}
	}
}

func init() {
	fw.Register(&fw.Prop{
		ID:    "C10",
		Level: "exploration",
		Rule: "operand pairs injected as Int values and evaluated through parsed source (`a op b`) and through `Int['op](a, b)`; " +
			"full square [-40,40]², all pairs of a boundary table (2^k±1, ±2^63 neighbours, √2^63 neighbours, …), seed-determined random 64-bit/mixed-magnitude pairs; " +
			"`**` with bases [-12,12] ∪ boundary and exponents 0..64. A case is non-trivial when its exact result fits int64 (or the divisor is 0) so the oracle judged it; " +
			"distinct = distinct (operator, signed bit-length of a, signed bit-length of b) classes among judged evaluations",
		Assumptions: []string{
			"math/big is the reference for exact integer results; float64 division of the converted operands for `/`",
			"results outside int64 are not judged (statement's proviso) except that they must not crash",
		},
		Exhaustive: func(tier string) bool { return false },
		Floor: func(m *fw.Merged) string {
			if m.Counters["square_pairs"] < 6561 {
				return fmt.Sprintf("exhaustive square incomplete: %d/6561 pairs", m.Counters["square_pairs"])
			}
			return ""
		},
		Run: runC10,
	})
}

var c10overrideSrc, c10overrideBad string

func runC10(w *fw.W) {
	var ip *interp.Interp
	var ops []*c10op
	setup := func() {
		if ip != nil {
			return
		}
		ip = interp.New()
		// before any plain arithmetic: values of Int / Float descendants that define the operators themselves are the first
		// receivers of every operator in this process (what they define is theirs alone; plain ints keep Int's arithmetic)
		c10overrideSrc = "QI := Int.bear({'+: m{|o| 255}, '-: m{|o| 255}, '*: m{|o| 255}, '/: m{|o| 255}, '//: m{|o| 255}, '%: m{|o| 255}, '**: m{|o| 255}, '<=>: m{|o| 255}, '-%: m{255}})\n" +
			"QF := Float.bear({'+: m{|o| 255}, '*: m{|o| 255}})\n" +
			"q := QI.new(7)\n[q + 1, q - 1, q * 2, q / 2, q // 2, q % 2, q ** 2, q <=> 1, -q, QF.new(1.5) + 1, QF.new(1.5) * 2]"
		if o := ip.Run(c10overrideSrc, interp.Options{}); !o.OK() || o.Inspect != "[255, 255, 255, 255, 255, 255, 255, 255, 255, 255, 255]" {
			c10overrideBad = o.Outcome()
		}
		mk := func(name, infix, prop string) *c10op {
			o := &c10op{name: name}
			if infix != "" {
				o.infix = interp.MustTemplate(infix)
			}
			if prop != "" {
				o.prop = interp.MustTemplate(prop)
			}
			return o
		}
		ops = []*c10op{
			mk("+", "a + b", "Int['+](a, b)"),
			mk("-", "a - b", "Int['-](a, b)"),
			mk("*", "a * b", "Int['*](a, b)"),
			mk("/", "a / b", "Int['/](a, b)"),
			mk("//", "a // b", "Int['//](a, b)"),
			mk("%", "a % b", "Int['%](a, b)"),
			mk("<=>", "a <=> b", "Int['<=>](a, b)"),
			mk("neg", "-a", "Int['-%](a)"),
		}
	}
	pow := func() *c10op {
		return &c10op{name: "**", infix: interp.MustTemplate("a ** b"), prop: interp.MustTemplate("Int['**](a, b)")}
	}
	runBatch := func(caseID string, replay any, counter string, body func(b *c10batch)) {
		if !w.Take() {
			return
		}
		setup()
		w.Begin(caseID, replay)
		b := &c10batch{ip: ip, dk: map[string]struct{}{}, vseen: map[string]bool{}}
		body(b)
		r := fw.Result{Verdict: fw.Held, Evals: b.evals, More: b.viol,
			Counters: map[string]int{"judged": b.judged, "result_outside_int64_not_judged": b.notFit, "zero_divisor_cases": b.zeroDiv}}
		for k := range b.dk {
			r.DKeys = append(r.DKeys, k)
		}
		if len(b.sample) > 0 {
			r.Sample = b.sample
		}
		if len(b.viol) > 0 {
			r.Verdict = fw.Violated
			r.VKey, r.Detail, r.Replay = b.viol[0].VKey, b.viol[0].Detail, b.viol[0].Replay
			r.More = b.viol[1:]
		}
		if counter != "" {
			r.Counters[counter] = b.evals
		}
		w.End(r)
	}

	// 1. exhaustive square, one row per case
	for a := int64(-40); a <= 40; a++ {
		a := a
		runBatch(fmt.Sprintf("square a=%d", a), map[string]any{"kind": "square-row", "a": a}, "", func(b *c10batch) {
			for bv := int64(-40); bv <= 40; bv++ {
				for _, op := range ops {
					if op.name == "neg" && bv != 0 {
						continue
					}
					b.check(op, a, bv)
				}
			}
		})
	}
	// count square pairs: recorded via a separate counter per row
	// (done below through a cheap second pass so that Floor can verify completeness)
	for a := int64(-40); a <= 40; a++ {
		if !w.Take() {
			continue
		}
		w.Begin(fmt.Sprintf("square-count a=%d", a), nil)
		w.End(fw.Result{Verdict: fw.Held, Evals: 0, Counters: map[string]int{"square_pairs": 81}})
	}

	// 1b. zero divisors of every int-like kind (plain 0, false, nil-as-0 is excluded, typed zeros of Int descendants, computed zeros)
	if w.Take() {
		setup()
		w.Begin("zero divisors of every int-like kind", nil)
		var vs violSet
		n := 0
		if c10overrideBad != "" {
			vs.add("C10|operator-override|descendant-operators-not-used", "operators defined by an Int/Float descendant: "+c10overrideSrc+" → "+c10overrideBad, c10overrideSrc)
		}
		// and again now that plain ints have been the receivers of every operator
		if o := ip.Run("7 + 1\n7 - 1\n7 * 2\n7 // 2\n"+c10overrideSrc, interp.Options{}); !o.OK() || o.Inspect != "[255, 255, 255, 255, 255, 255, 255, 255, 255, 255, 255]" {
			vs.add("C10|operator-override|descendant-operators-not-used-after-plain-ints", "operators defined by an Int/Float descendant, after plain arithmetic: "+o.Outcome(), c10overrideSrc)
		}
		zeros := []string{"0", "false", "Int.bear.new(0)", "{|| z := Int.bear; z.new(3) - z.new(3)}()", "(5 - 5)", "(0 * 7)", "-0", "[].len", "Int.bear({k: 1}).new(0)", "\"0\".I", "[0][0]"}
		nums := []string{"7", "-7", "0", "9223372036854775807", "Int.bear.new(6)", "true"}
		for _, z := range zeros {
			zo := ip.Run(z, interp.Options{})
			if !zo.OK() {
				panic("C10 harness: zero spelling does not evaluate: " + z + " → " + zo.Outcome())
			}
			for _, a := range nums {
				for _, op := range []string{"/", "//", "%"} {
					src := fmt.Sprintf("%s %s %s", a, op, z)
					o := ip.Run(src, interp.Options{})
					n++
					if o.Panic != "" || o.Err == nil || o.ErrKind != "ZeroDivisionErr" {
						vs.add("C10|"+op+"|zero-divisor-no-ZeroDivisionErr", fmt.Sprintf("%s → %s, want ZeroDivisionErr", src, o.Outcome()), src)
					}
				}
			}
		}
		r := fw.Result{Verdict: fw.Held, Evals: n, Counters: map[string]int{"zero_divisor_cases": n, "judged": n}, DKeys: []string{"zero-divisor-kinds"}}
		vs.finish(&r)
		w.End(r)
	}

	// 2. boundary table, all pairs; one row per case
	bnd := c10Boundary()
	for _, a := range bnd {
		a := a
		runBatch(fmt.Sprintf("boundary a=%d", a), map[string]any{"kind": "boundary-row", "a": a}, "", func(b *c10batch) {
			for _, bv := range bnd {
				for _, op := range ops {
					if op.name == "neg" && bv != 0 {
						continue
					}
					b.check(op, a, bv)
				}
			}
		})
	}

	// 3. powers
	var bases []int64
	for v := int64(-12); v <= 12; v++ {
		bases = append(bases, v)
	}
	for _, v := range bnd {
		if v > 12 || v < -12 {
			bases = append(bases, v)
		}
	}
	var pw *c10op
	for _, a := range bases {
		a := a
		runBatch(fmt.Sprintf("pow base=%d", a), map[string]any{"kind": "pow-row", "a": a}, "", func(b *c10batch) {
			if pw == nil {
				pw = pow()
			}
			for e := int64(0); e <= 64; e++ {
				b.check(pw, a, e)
			}
			// exponents beyond 64: the power still fits for the bases -1, 0 and 1
			for _, e := range []int64{65, 66, 100, 127, 1000, 1001, 1 << 53, 1<<53 + 1, 1<<53 + 2, 1<<53 + 3, math.MaxInt64 - 1, math.MaxInt64} {
				b.check(pw, a, e)
			}
		})
	}

	// 4. random pairs, seed-determined, batches of 500
	nb := w.Pick(200, 60000)
	for k := 0; k < nb; k++ {
		k := k
		runBatch(fmt.Sprintf("random batch %d", k), map[string]any{"kind": "random-batch", "batch": k}, "", func(b *c10batch) {
			rng := w.Rand()
			if pw == nil {
				pw = pow()
			}
			rnd := func() int64 {
				switch rng.Intn(6) {
				case 0:
					return bnd[rng.Intn(len(bnd))]
				case 1:
					return int64(rng.Uint64())
				case 2:
					return int64(rng.Uint64()) >> uint(rng.Intn(64))
				case 3:
					return bnd[rng.Intn(len(bnd))] + int64(rng.Intn(7)-3)
				case 4:
					return int64(rng.Intn(2001) - 1000)
				default:
					// near square root of 2^63 and 2^53
					return int64(math.Sqrt(float64(uint64(1)<<uint(40+rng.Intn(24))))) + int64(rng.Intn(5)-2)
				}
			}
			for i := 0; i < 500; i++ {
				a, bv := rnd(), rnd()
				op := ops[rng.Intn(len(ops))]
				b.check(op, a, bv)
				if i%10 == 0 {
					b.check(pw, int64(rng.Intn(41)-20), int64(rng.Intn(40)))
				}
				// quotient-shaped pairs: a = q*b + r with chosen q, r (exercise floor adjustment)
				if i%5 == 0 && bv != 0 {
					q := int64(rng.Intn(2001) - 1000)
					bb := bv>>uint(11+rng.Intn(40)) | 1
					r := int64(0)
					if bb > 1 || bb < -1 {
						r = rng.Int63n(absI64(bb))
					}
					aa := q*bb + r
					b.check(ops[4], aa, bb)
					b.check(ops[5], aa, bb)
				}
			}
		})
	}
}

func absI64(x int64) int64 {
	if x < 0 {
		if x == math.MinInt64 {
			return math.MaxInt64
		}
		return -x
	}
	return x
}
