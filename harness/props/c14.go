package props

import (
	"fmt"
	"math/rand"
	"strings"

	"github.com/Syuparn/pangaea/object"

	"verif/fw"
	"verif/interp"
)

// C14 — iterator literals follow the next/yield/recur protocol and are independent.
// Oracle: per-iterator state machines with a closed-form body model, run independently.

type c14lit struct {
	name string
	kind string // counter fib kwstep infinite twoyields recurfirst const captured outer
	N, S int
	F    string // i | i*2 | [i, i]
	src  string
	// outer: name of the inner iterator variable
	inner string
}

type c14mach struct {
	lit  *c14lit
	a, b int // state
	step int
}

func c14F(f string, i int) string {
	switch f {
	case "i*2":
		return fmt.Sprint(i * 2)
	case "[i, i]":
		return fmt.Sprintf("[%d, %d]", i, i)
	}
	return fmt.Sprint(i)
}

type c14world struct {
	lim   int
	machs map[string]*c14mach // by iterator variable name (aliases share the pointer)
}

// next advances m; returns value inspect or stop.
func (w *c14world) next(m *c14mach) (val string, stop bool) {
	l := m.lit
	switch l.kind {
	case "counter", "recurfirst", "factory":
		if m.a < l.N {
			v := c14F(l.F, m.a)
			m.a += l.S
			return v, false
		}
		return "", true
	case "captured":
		if m.a < w.lim {
			v := c14F(l.F, m.a)
			m.a += l.S
			return v, false
		}
		return "", true
	case "fib":
		if m.a < l.N {
			v := fmt.Sprint(m.a)
			m.a, m.b = m.b, m.a+m.b
			return v, false
		}
		return "", true
	case "kwstep":
		if m.a < l.N {
			v := fmt.Sprint(m.a)
			m.a += m.step
			return v, false
		}
		return "", true
	case "infinite":
		v := c14F(l.F, m.a)
		m.a += l.S
		return v, false
	case "twoyields":
		v := fmt.Sprint(m.a * 10)
		m.a++
		return v, false
	case "const":
		if m.a < l.N {
			return c14F(l.F, m.a), false
		}
		return "", true
	case "nested":
		// the body makes an iterator of its own and goes through it: the inner recur belongs to the inner iterator
		if m.a < l.N {
			v := fmt.Sprintf("[%d, [0, 1, 2]]", m.a)
			m.a += l.S
			return v, false
		}
		return "", true
	case "reassign":
		// the body assigns to its own parameter and to a local; without recur the next step runs with the
		// arguments given by new again (S == 0), with recur with those given to recur
		if m.a+1 < l.N {
			v := c14F(l.F, m.a+1)
			m.a += l.S
			return v, false
		}
		return "", true
	case "gapped":
		// recur comes first and the guard fails on every third value: a step that ends in StopIterErr has
		// still moved the iterator on, so the following steps yield again
		cur := m.a
		m.a++
		if cur%3 == 2 {
			return "", true
		}
		return c14F(l.F, cur), false
	case "nilyield":
		// every second step yields nil first: a yielded nil is the step's value like any other
		if m.a < l.N {
			v := "nil"
			if m.a%2 == 0 {
				v = c14F(l.F, m.a)
			}
			m.a++
			return v, false
		}
		return "", true
	case "taker":
		// a guarded yield whose value steps another iterator: when the guard is false the step stops without
		// evaluating the value, so the other iterator stays where it is (however often the stopped one is asked)
		if m.a >= l.N {
			return "", true
		}
		fallthrough
	case "outer":
		in := w.machs[l.inner]
		iv, st := w.next(in)
		if st {
			return "", true
		}
		var n int
		fmt.Sscan(iv, &n)
		v := fmt.Sprint(n + m.a)
		m.a++
		return v, false
	}
	return "", true
}

// reads: the literal's body steps another iterator held in a variable
func (l *c14lit) reads() bool { return l.kind == "outer" || l.kind == "taker" }

func (l *c14lit) finite() bool {
	switch l.kind {
	case "counter", "recurfirst", "fib", "kwstep", "captured", "factory", "nilyield", "gapped", "nested":
		return true
	case "reassign":
		return l.S > 0
	}
	return false
}

func c14genLit(rng *rand.Rand, idx int, allowCaptured bool) *c14lit {
	l := &c14lit{name: fmt.Sprintf("g%d", idx), N: rng.Intn(7), S: 1 + rng.Intn(3), F: []string{"i", "i*2", "[i, i]"}[rng.Intn(3)]}
	kinds := []string{"counter", "counter", "fib", "kwstep", "infinite", "twoyields", "recurfirst", "const", "factory", "factory", "nilyield", "gapped", "reassign", "nested"}
	if allowCaptured {
		kinds = append(kinds, "captured")
	}
	l.kind = kinds[rng.Intn(len(kinds))]
	fe := map[string]string{"i": "i", "i*2": "i * 2", "[i, i]": "[i, i]"}[l.F]
	switch l.kind {
	case "counter":
		l.src = fmt.Sprintf("<{|i| yield %s if i < %d; recur(i + %d)}>", fe, l.N, l.S)
		if rng.Intn(3) == 0 {
			// the same iterator written without parameters: its state lives in `\` only
			be := map[string]string{"i": "\\", "i*2": "\\ * 2", "[i, i]": "[\\, \\]"}[l.F]
			l.src = fmt.Sprintf("<{yield %s if \\ < %d; recur(\\ + %d)}>", be, l.N, l.S)
		}
	case "factory":
		// the literal is written inside a function: its free variables belong to that call
		l.F = "i"
		l.N = 2 + rng.Intn(8)
		l.src = fmt.Sprintf("mk(%d, %d)", l.N, l.S)
	case "captured":
		l.src = fmt.Sprintf("<{|i| yield %s if i < lim; recur(i + %d)}>", fe, l.S)
	case "fib":
		l.N = 5 + rng.Intn(40)
		l.src = fmt.Sprintf("<{|a, b| yield a if a < %d; recur(b, a + b)}>", l.N)
	case "kwstep":
		l.N = rng.Intn(12)
		l.src = fmt.Sprintf("<{|i, step: 1| yield i if i < %d; recur(i + step, step: step)}>", l.N)
	case "infinite":
		l.src = fmt.Sprintf("<{|i| yield %s; recur(i + %d)}>", fe, l.S)
		if rng.Intn(3) == 0 {
			be := map[string]string{"i": "\\", "i*2": "\\ * 2", "[i, i]": "[\\, \\]"}[l.F]
			l.src = fmt.Sprintf("<{yield %s; recur(\\ + %d)}>", be, l.S)
		}
	case "twoyields":
		l.src = "<{|i| yield i * 10; yield 999; recur(i + 1)}>"
	case "recurfirst":
		l.src = fmt.Sprintf("<{|i| recur(i + %d); yield %s if i < %d}>", l.S, fe, l.N)
	case "const":
		l.src = fmt.Sprintf("<{|i| yield %s if i < %d}>", fe, l.N)
	case "nested":
		l.src = fmt.Sprintf("<{|i| inner := <{|j| yield j if j < 3; recur(j + 1)}>.new(0); yield [i, %s] if i < %d; recur(i + %d)}>", []string{"inner.A", "[inner.next, inner.next, inner.next]", "inner@{|x| x}"}[rng.Intn(3)], l.N, l.S)
	case "reassign":
		if rng.Intn(2) == 0 {
			l.S = 0
			l.src = fmt.Sprintf("<{|i| i := i + 1; seen := 1; yield %s if i < %d}>", fe, l.N)
		} else {
			l.src = fmt.Sprintf("<{|i| j := i; i := i + 1; yield %s if i < %d; recur(j + %d)}>", fe, l.N, l.S)
		}
	case "gapped":
		l.src = fmt.Sprintf("<{|i| recur(i + 1); yield %s if i %% 3 != 2}>", fe)
		if rng.Intn(2) == 0 {
			l.src = fmt.Sprintf("<{|i| defer recur(i + 1); yield %s if i %% 3 != 2}>", fe)
		}
	case "nilyield":
		l.N = 2 + rng.Intn(6)
		if rng.Intn(2) == 0 {
			l.src = fmt.Sprintf("<{|i| yield (%s if i %% 2 == 0) if i < %d; yield 999; recur(i + 1)}>", fe, l.N)
		} else {
			l.src = fmt.Sprintf("<{|i| yield (%s if i %% 2 == 0) if i < %d; recur(i + 1); i * 100}>", fe, l.N)
		}
	}
	return l
}

func (l *c14lit) newMach(rng *rand.Rand) (*c14mach, string) {
	m := &c14mach{lit: l, step: 1}
	switch l.kind {
	case "fib":
		m.a, m.b = rng.Intn(3), 1+rng.Intn(3)
		return m, fmt.Sprintf("%d, %d", m.a, m.b)
	case "kwstep":
		m.a = rng.Intn(4)
		if rng.Intn(2) == 0 {
			m.step = 1 + rng.Intn(3)
			return m, fmt.Sprintf("%d, step: %d", m.a, m.step)
		}
		return m, fmt.Sprint(m.a)
	case "outer", "taker":
		m.a = rng.Intn(3)
		return m, fmt.Sprint(m.a)
	}
	m.a = rng.Intn(5) - 1
	if l.kind == "gapped" {
		m.a = rng.Intn(5)
	}
	return m, fmt.Sprint(m.a)
}

func init() {
	fw.Register(&fw.Prop{
		ID:    "C14",
		Level: "exploration",
		Rule: "histories of 10–40 operations over 2–6 iterators derived from 2–3 iterator literals of a parameterised family with a closed-form model (bounded counters with value function and step, two-argument and keyword-argument state, unguarded yield, several yields, recur before yield, no recur, guard depending on a captured variable the history reassigns, a body reading another iterator): " +
			"new from the literal and from an advanced iterator, aliasing, next, try.next past the end, A, list chain, reduce chain, _iter.next, passing an iterator to a function that advances it; every operation's value (or StopIterErr) is compared with per-iterator state machines run independently. " +
			"distinct = distinct (operation, literal kind, iterator-was-advanced, other-iterators-live) tuples judged; non-trivial = ≥2 live iterators from one literal" +
			" Added: parameter-less literals keeping their state in `\\`, a family whose every second step yields nil first, strict list chains. Sixth round: an iterator whose guarded yield steps another iterator (`taker`); bodies that assign to their own parameter (`reassign`).",
		Assumptions: []string{
			"model: new creates a fresh machine from the literal's parameters; next evaluates the body once with the current arguments; a false guarded yield raises StopIterErr and leaves the state; A/@/$ enumerate a copy up to the first stop; recur takes effect at the next `next`",
			"A/@/$ are only applied to kinds that stop; built-in iterators are not judged (the statement speaks of iterator literals)",
		},
		Floor: func(m *fw.Merged) string {
			if m.Counters["histories"] < 400 || m.Counters["ops_judged"] < 8000 || m.Counters["chain_on_advanced_iterator"] < 100 {
				return fmt.Sprintf("observed too little: %v", m.Counters)
			}
			return ""
		},
		Run: runC14,
	})
}

func runC14(w *fw.W) {
	var ip *interp.Interp
	nh := w.Pick(4000, 100000)
	for h := 0; h < nh; h++ {
		if !w.Take() {
			continue
		}
		if ip == nil {
			ip = interp.New()
		}
		rng := w.Rand()
		w.Begin(fmt.Sprintf("history %d", h), map[string]any{"history": h})
		env := object.NewEnclosedEnv(ip.Const)
		world := &c14world{lim: 2 + rng.Intn(3), machs: map[string]*c14mach{}}
		var lines []string
		var vs violSet
		dk := map[string]struct{}{}
		judged, chainAdv := 0, 0
		run := func(stmt string) *interp.Obs {
			lines = append(lines, stmt)
			w.Note(lines)
			return ip.Run(stmt, interp.Options{Env: env, Fuel: 200000})
		}
		run(fmt.Sprintf("lim := %d", world.lim))
		run("adv := {|it| it.next}")
		run("mk := {|limit, step| <{|i| yield i if i < limit; recur(i + step)}>}")
		nl := 2 + rng.Intn(2)
		var lits []*c14lit
		for i := 0; i < nl; i++ {
			l := c14genLit(rng, i, true)
			lits = append(lits, l)
			run(l.name + " := " + l.src)
		}
		var its []string
		advanced := map[*c14mach]bool{}
		newIter := func(l *c14lit, from string) {
			name := fmt.Sprintf("it%d", len(its))
			m, args := l.newMach(rng)
			src := l.name
			if from != "" {
				src = from
			}
			stmt := fmt.Sprintf("%s := %s.new(%s)", name, src, args)
			if rng.Intn(3) == 0 {
				// `new` called from another scope that has its own variables of the same names
				stmt = fmt.Sprintf("%s := {|limit, step, lim, i| %s.new(%s)}(1, 7, 0, 99)", name, src, args)
			}
			o := run(stmt)
			if !o.OK() {
				vs.add("C14|new|"+l.kind, fmt.Sprintf("%s → %s\nhistory:\n%s", lines[len(lines)-1], o.Outcome(), strings.Join(lines, "\n")), lines)
				return
			}
			world.machs[name] = m
			its = append(its, name)
		}
		newIter(lits[0], "")
		newIter(lits[0], "")
		// optionally an outer iterator reading an infinite inner one
		if rng.Intn(4) == 0 {
			inner := &c14lit{name: "gin", kind: "infinite", S: 1, F: "i", src: "<{|i| yield i; recur(i + 1)}>"}
			run(inner.name + " := " + inner.src)
			lits = append(lits, inner)
			newIter(inner, "")
			innerName := its[len(its)-1]
			outer := &c14lit{name: "gout", kind: "outer", inner: innerName, src: fmt.Sprintf("<{|k| yield %s.next + k; recur(k + 1)}>", innerName)}
			if rng.Intn(2) == 0 {
				outer = &c14lit{name: "gout", kind: "taker", N: 2 + rng.Intn(4), inner: innerName}
				outer.src = fmt.Sprintf("<{|k| yield %s.next + k if k < %d; recur(k + 1)}>", innerName, outer.N)
			}
			run(outer.name + " := " + outer.src)
			lits = append(lits, outer)
			newIter(outer, "")
		}
		nops := 10 + rng.Intn(31)
		for k := 0; k < nops && len(its) > 0; k++ {
			name := its[rng.Intn(len(its))]
			m := world.machs[name]
			l := m.lit
			live := 0
			for _, other := range world.machs {
				if other.lit == l && other != m {
					live++
				}
			}
			expectVal := func(op, stmt, want string, wantStop bool) {
				o := run(stmt)
				judged++
				cls := fmt.Sprintf("%s|%s|adv=%v|others=%v", op, l.kind, advanced[m], live > 0)
				hist := strings.Join(lines, "\n")
				switch {
				case o.Panic != "" || o.Cutoff != "" || o.ParseErr != "":
					vs.add("C14|"+op+"|"+l.kind+"|abnormal", fmt.Sprintf("%s → %s\nhistory:\n%s", stmt, o.Outcome(), hist), lines)
				case wantStop && (o.Err == nil || o.ErrKind != "StopIterErr"):
					vs.add("C14|"+op+"|"+l.kind+"|expected-StopIterErr", fmt.Sprintf("%s → %s, the model's machine is exhausted\nhistory:\n%s", stmt, o.Outcome(), hist), lines)
				case !wantStop && (!o.OK() || o.Inspect != want):
					vs.add("C14|"+op+"|"+l.kind+"|wrong-value", fmt.Sprintf("%s → %s, model says %s\nhistory:\n%s", stmt, o.Outcome(), want, hist), lines)
				default:
					if live > 0 {
						dk[cls] = struct{}{}
					}
				}
			}
			dropNil := func(vals []string) []string {
				var out []string
				for _, v := range vals {
					if v != "nil" {
						out = append(out, v)
					}
				}
				return out
			}
			enumerate := func(cp c14mach) []string {
				var vals []string
				for i := 0; i < 200; i++ {
					v, st := world.next(&cp)
					if st {
						break
					}
					vals = append(vals, v)
				}
				return vals
			}
			switch op := rng.Intn(17); {
			case op == 14:
				// stepping through an object property that holds the iterator steps that iterator
				run(fmt.Sprintf("box := {it: %s, n: 1}", name))
				v, st := world.next(m)
				advanced[m] = true
				if rng.Intn(2) == 0 {
					expectVal("next-through-property", "box.it.next", v, st)
				} else {
					expectVal("next-through-inherited-property", "box.bear({z: 1}).it.next", v, st)
				}
			case op == 15 && l.finite() && !l.reads():
				// a list chain over (a copy of) this iterator whose block steps another iterator: the block's own
				// StopIterErr (the other one ran out first) is an error like any other
				other := its[rng.Intn(len(its))]
				m2 := world.machs[other]
				if m2 == m || m2.lit.reads() || l.kind == "nilyield" || m2.lit.kind == "nilyield" {
					break
				}
				var pairs []string
				stopped := false
				for _, v := range enumerate(*m) {
					v2, st := world.next(m2)
					advanced[m2] = true
					if st {
						stopped = true
						break
					}
					pairs = append(pairs, "["+v+", "+v2+"]")
				}
				expectVal("list-chain-stepping-another-iterator", fmt.Sprintf("%s@{|x| [x, %s.next]}", name, other), "["+strings.Join(pairs, ", ")+"]", stopped)
			case op == 16 && l.finite() && !l.reads():
				other := its[rng.Intn(len(its))]
				m2 := world.machs[other]
				if m2 == m || m2.lit.reads() {
					break
				}
				cnt := 0
				stopped := false
				for range enumerate(*m) {
					if _, st := world.next(m2); st {
						stopped = true
						break
					}
					cnt++
				}
				advanced[m2] = true
				expectVal("reduce-chain-stepping-another-iterator", fmt.Sprintf("%s$(0){|acc, x| %s.next; acc + 1}", name, other), fmt.Sprint(cnt), stopped)
			case op < 4:
				v, st := world.next(m)
				advanced[m] = true
				expectVal("next", name+".next", v, st)
			case op == 4:
				v, st := world.next(m)
				advanced[m] = true
				if st {
					expectVal("try.next", name+".try.next.A", "[nil, [StopIterErr: iter stopped]]", false)
				} else {
					expectVal("try.next", name+".try.next.A", "["+v+", nil]", false)
				}
			case op == 5 && l.finite():
				if advanced[m] {
					chainAdv++
				}
				expectVal("A", name+".A", "["+strings.Join(dropNil(enumerate(*m)), ", ")+"]", false)
			case op == 6 && l.finite():
				if advanced[m] {
					chainAdv++
				}
				if rng.Intn(2) == 0 {
					expectVal("strict-list-chain", name+"=@{|x| x}", "["+strings.Join(enumerate(*m), ", ")+"]", false)
				} else {
					expectVal("list-chain", name+"@{|x| x}", "["+strings.Join(dropNil(enumerate(*m)), ", ")+"]", false)
				}
			case op == 7 && l.finite():
				if advanced[m] {
					chainAdv++
				}
				expectVal("reduce-chain", name+"$(0){|acc, x| acc + 1}", fmt.Sprint(len(enumerate(*m))), false)
			case op == 8 && !l.reads():
				cp := *m
				v, st := world.next(&cp)
				expectVal("_iter.next", name+"._iter.next", v, st)
			case op == 9:
				v, st := world.next(m)
				advanced[m] = true
				expectVal("passed-to-function", "adv("+name+")", v, st)
			case op == 10 && len(its) < 6 && !l.reads():
				// new from an (advanced) iterator: fresh machine from the literal's parameters
				newIter(l, name)
			case op == 11 && len(its) < 6:
				l2 := lits[rng.Intn(len(lits))]
				if !l2.reads() {
					newIter(l2, "")
				}
			case op == 12 && len(its) < 6:
				alias := fmt.Sprintf("it%d", len(its))
				if o := run(alias + " := " + name); o.OK() {
					world.machs[alias] = m
					its = append(its, alias)
				}
			case op == 13:
				world.lim = rng.Intn(8)
				run(fmt.Sprintf("lim := %d", world.lim))
			}
		}
		r := fw.Result{Verdict: fw.Held, Evals: len(lines), Counters: map[string]int{"histories": 1, "ops_judged": judged, "chain_on_advanced_iterator": chainAdv}}
		for k := range dk {
			r.DKeys = append(r.DKeys, k)
		}
		if h%80 == 0 && len(lines) > 8 {
			r.Sample = map[string]any{"history_head": lines[:8], "operations_judged": judged}
		}
		vs.finish(&r)
		w.End(r)
	}
}
