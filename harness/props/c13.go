package props

import (
	"fmt"
	"sort"
	"strings"

	"verif/fw"
	"verif/interp"
)

// C13 — try/Either captures exactly the error that would have been raised.
// Oracle: differential within one interpreter: the wrapped chain's accessors against the
// outcome of the unwrapped chain.

const c13prelude = `U := {|n| {
  n: n,
  tag: "const",
  inc: m{"inc#{.n}".p; U(.n + 1)},
  add: m{|k, twice: false| "add#{.n}".p; U(.n + (k * 2 if twice else k))},
  '+: m{|k| "plus#{.n}".p; U(.n + k)},
  fail: m{|K, msg| "fail#{.n}".p; raise K.new(msg)},
  _missing: m{|name, a| "missing-#{name}#{.n}".p; U(.n + 100)},
  _priv: m{|k| "priv#{.n}".p; U(.n + (k || 7))},
  _pval: 5,
}}
fv := {|x| "var#{x.n}".p; U(x.n + 10)}
fpair := {|a, b| "pair".p; a + b}
wrapped := 1.try./(0).err
fident := {|x| x}
negf := Int['-%]
lenf := Arr['len]
callable := {call: m{|x| x + 100}}
`

type c13step struct {
	name string
	src  string
	fam  string // u | int | any
	fail *c13fail
}

type c13fail struct {
	kind string
	msg  string
}

func c13steps(fam string) (ok []c13step, failing []c13step) {
	if fam == "u" {
		ok = []c13step{
			{name: "method", src: ".inc"}, {name: "method-args", src: ".add(3)"}, {name: "method-kwargs", src: ".add(2, twice: true)"},
			{name: "operator", src: ".+(5)"}, {name: "literal", src: `.{|x| "lit#{x.n}".p; U(x.n * 2)}`}, {name: "var", src: ".^fv"},
			{name: "value-missing", src: ".undefinedprop(1)"}, {name: "method-trailing-literal", src: ".add(1) {|z| z}"},
			{name: "returns-error-value", src: ".{|x| wrapped}"},
			{name: "private-method", src: "._priv(2)"}, {name: "private-missing", src: "._nosuch(1)"},
		}
		for _, k := range c19errKinds {
			failing = append(failing, c13step{name: "raise-" + k, src: fmt.Sprintf(`.fail(%s, "m-%s")`, k, k), fail: &c13fail{k, "m-" + k}})
		}
		failing = append(failing,
			c13step{name: "literal-raises", src: `.{|x| "litfail".p; raise ValueErr.new("from literal")}`, fail: &c13fail{"ValueErr", "from literal"}},
			c13step{name: "reraise-wrapper", src: `.{|x| raise wrapped}`, fail: &c13fail{"ZeroDivisionErr", "cannot be divided by 0"}},
			c13step{name: "not-implemented", src: `.{|x| _}`, fail: &c13fail{"NotImplementedErr", "Not implemented"}},
			c13step{name: "name-error", src: `.{|x| undefinedname}`, fail: &c13fail{"NameErr", "name `undefinedname` is not defined"}},
			c13step{name: "host-type-error", src: `.{|x| x.n + "s"}`, fail: &c13fail{"TypeErr", ""}},
			c13step{name: "var-raises", src: `.^{|x| 1 / 0}`, fail: nil},
		)
		// `.^{…}` is not in the grammar: drop the last one
		failing = failing[:len(failing)-1]
		return
	}
	ok = []c13step{
		{name: "operator+", src: ".+(5)"}, {name: "operator*", src: ".*(2)"}, {name: "floordiv", src: ".//(3)"}, {name: "builtin-sqrt", src: ".sqrt"},
		{name: "literal", src: ".{|n| n + 1}"}, {name: "builtin-even?", src: ".even?"}, {name: "literal-implicit", src: ".{\\ * 3}"},
		{name: "returns-error-value", src: ".{|n| n.try.{100 / 0}.err}"},
	}
	failing = []c13step{
		{name: "host-zero-division", src: ".//(0)", fail: &c13fail{"ZeroDivisionErr", "cannot be divided by 0"}},
		{name: "host-type-error", src: `.+("s")`, fail: &c13fail{"TypeErr", ""}},
		{name: "host-no-prop", src: ".nopeprop", fail: &c13fail{"NoPropErr", "property `nopeprop` is not defined."}},
		{name: "host-no-prop-args", src: ".nopeprop(1, k: 2)", fail: &c13fail{"NoPropErr", "property `nopeprop` is not defined."}},
		{name: "host-name-error", src: ".{|n| undefinedname}", fail: &c13fail{"NameErr", "name `undefinedname` is not defined"}},
		{name: "host-value-error", src: ".{|n| -4.sqrt}", fail: &c13fail{"ValueErr", "sqrt of -4 is not a real number"}},
	}
	return
}

func init() {
	fw.Register(&fw.Prop{
		ID:    "C13",
		Level: "fault_enumeration",
		Rule: "chains `v.try.s1…sk` and the unwrapped `v.s1…sk` (k ≤ 3 complete in quick, k ≤ 4 complete in thorough) over two families — user objects with marker-printing methods (method, args, kwargs, trailing literal, operator method, literal call, variable call, the value's own _missing) and ints with built-in/operator/literal steps — with a failing step of every error source (the 11 built-in kinds raised by K.new, host ZeroDivisionErr/TypeErr/NoPropErr/NameErr/ValueErr, re-raised wrapper, `_`) injected at every position; plus non-callable properties, array receivers with multi-parameter literals and nil values. " +
			"Oracle: unwrapped outcome U (value or kind+message, stdout markers) vs. the wrapped run's val, err, A, val?, err?, or, catch (matching / non-matching), ignore, abandon, err.type, err.msg and its stdout markers. distinct = distinct (family, step kinds, failure source, position) tuples; non-trivial = every case (the unwrapped run decides the expectation)" +
			" Added: receivers and step results that are themselves Either values. Sixth round: the same steps applied to `[v.try]` through a list chain.",
		Assumptions: []string{
			"steps are drawn from names the Either does not define itself (p, S, A, keys, B … are answered by the Either, per the documents)",
			"val? is `val != nil`: chains whose successful value is nil are not judged on val?",
		},
		Exhaustive: func(string) bool { return true },
		Floor: func(m *fw.Merged) string {
			if m.Counters["chains"] < 1500 {
				return fmt.Sprintf("chains=%d", m.Counters["chains"])
			}
			return ""
		},
		Run: runC13,
	})
}

type c13chain struct {
	fam   string
	recv  string
	steps []c13step
	tag   string
}

func runC13(w *fw.W) {
	var ip *interp.Interp
	maxK := w.Pick(3, 4)
	var chains []c13chain
	for _, fam := range []string{"u", "int"} {
		ok, failing := c13steps(fam)
		recv := "U(1)"
		if fam == "int" {
			recv = "20"
		}
		var rec func(cur []c13step, k int)
		rec = func(cur []c13step, k int) {
			if len(cur) == k {
				// no failure
				chains = append(chains, c13chain{fam: fam, recv: recv, steps: append([]c13step{}, cur...)})
				// failure at each position, every source
				for j := 0; j < k; j++ {
					for _, f := range failing {
						st := append([]c13step{}, cur...)
						st[j] = f
						chains = append(chains, c13chain{fam: fam, recv: recv, steps: st})
					}
				}
				return
			}
			for _, s := range ok {
				rec(append(cur, s), k)
			}
		}
		for k := 1; k <= maxK; k++ {
			rec(nil, k)
		}
	}
	// special receivers / steps named by the statement's corner cases
	special := []c13chain{
		{fam: "special", recv: "{a: 1}", steps: []c13step{{name: "non-callable-prop", src: ".a"}}},
		{fam: "special", recv: "U(1)", steps: []c13step{{name: "non-callable-prop", src: ".tag"}}},
		{fam: "special", recv: "U(1)", steps: []c13step{{name: "method", src: ".inc"}, {name: "non-callable-prop", src: ".n"}, {name: "operator+", src: ".+(1)"}}},
		{fam: "special", recv: "[3, 4]", steps: []c13step{{name: "literal-two-params", src: ".{|a, b| a + b}"}}},
		{fam: "special", recv: "[3, 4]", steps: []c13step{{name: "var-two-params", src: ".^fpair"}}},
		{fam: "special", recv: "[3, 4]", steps: []c13step{{name: "literal-one-param", src: ".{|a| a}"}}},
		{fam: "special", recv: "nil", steps: []c13step{{name: "host-no-prop", src: ".nopeprop", fail: &c13fail{"NoPropErr", ""}}}},
		{fam: "special", recv: "{a: nil}", steps: []c13step{{name: "non-callable-nil", src: ".a"}}},
		{fam: "special", recv: `"a"`, steps: []c13step{{name: "operator+", src: `.+("b")`}, {name: "builtin", src: ".len"}}},
		{fam: "special", recv: "{f: {|x| 5}}", steps: []c13step{{name: "func-prop-receiver-first", src: ".f"}}},
		{fam: "special", recv: "{_missing: m{|name| name}}", steps: []c13step{{name: "value-missing-noargs", src: ".anything"}}},
		// the value under try is itself an Either (a helper that reports its outcome as data): trying it is a success holding it
		{fam: "special", recv: "6.try./(3)", steps: []c13step{{name: "either-receiver-identity", src: ".{|x| x}"}}},
		{fam: "special", recv: "6.try./(0)", steps: []c13step{{name: "either-receiver-identity", src: ".{|x| x}"}}},
		{fam: "special", recv: "6.try./(0)", steps: []c13step{{name: "either-receiver-into-array", src: ".{|x| [x, 1]}"}}},
		{fam: "special", recv: "6.try./(0)", steps: []c13step{{name: "either-receiver-operator", src: ".+(1)"}}},
		{fam: "special", recv: "6.try./(3)", steps: []c13step{{name: "either-receiver-operator", src: ".+(1)"}, {name: "either-receiver-identity", src: ".{|x| x}"}}},
		{fam: "special", recv: "6.try./(0)", steps: []c13step{{name: "either-receiver-var", src: ".^fident"}}},
		{fam: "special", recv: "nil.try", steps: []c13step{{name: "either-receiver-identity", src: ".{|x| x}"}}},
		{fam: "special", recv: "6.try./(0)", steps: nil},
		{fam: "special", recv: "6.try./(3)", steps: nil},
		{fam: "special", recv: "{x: 6.try./(0)}", steps: []c13step{{name: "prop-holding-either", src: ".x"}}},
		{fam: "special", recv: "U(1)", steps: []c13step{{name: "private-non-callable", src: "._pval"}}},
		{fam: "special", recv: "U(1)", steps: []c13step{{name: "private-method", src: "._priv"}, {name: "private-method", src: "._priv(3)"}}},
		{fam: "special", recv: "{_x: 1}", steps: []c13step{{name: "private-absent", src: "._y", fail: &c13fail{"NoPropErr", ""}}}},
		// a step spelled as a variable call whose variable holds a built-in function / a callable object / a non-callable
		{fam: "special", recv: "3", steps: []c13step{{name: "var-builtin-func", src: ".^negf"}}},
		{fam: "special", recv: "3", steps: []c13step{{name: "var-callable-object", src: ".^callable"}}},
		{fam: "special", recv: "3", steps: []c13step{{name: "var-callable-object", src: ".^callable"}, {name: "operator+", src: ".+(1)"}}},
		{fam: "special", recv: "3", steps: []c13step{{name: "var-not-callable", src: ".^wrapped", fail: &c13fail{"TypeErr", ""}}}},
		{fam: "special", recv: "[3, 4]", steps: []c13step{{name: "var-builtin-func-on-arr", src: ".^lenf"}}},
		// a property holding an iterator is handed out, not stepped
		{fam: "special", recv: "{it: <{|x| yield x}>, n: 1}", steps: []c13step{{name: "iterator-valued-prop", src: ".it"}}},
		{fam: "special", recv: "{it: <{|x| yield 5}>.new(1), n: 1}", steps: []c13step{{name: "iterator-valued-prop", src: ".it"}, {name: "next", src: ".next"}}},
		{fam: "special", recv: "{bi: Int['+], n: 1}", steps: []c13step{{name: "builtin-func-valued-prop", src: ".bi(2)"}}},
	}
	chains = append(chains, special...)
	// replacing step j by a failing step makes chains that differ only in the replaced step identical: keep one
	{
		seen := map[string]bool{}
		var uniq []c13chain
		for _, c := range chains {
			src := c.recv
			for _, st := range c.steps {
				src += st.src
			}
			if !seen[src] {
				seen[src] = true
				uniq = append(uniq, c)
			}
		}
		chains = uniq
	}

	// an intermediate result kept in a variable and continued twice: each continuation works on what the kept
	// value holds, and the kept value still holds it afterwards
	if w.Take() {
		if ip == nil {
			ip = interp.New()
		}
		w.Begin("kept intermediate results continued twice", nil)
		var vs violSet
		n := 0
		steps := []string{".+(5)", ".*(2)", ".//(3)", ".{|n| n + 1}", ".-(4)", ".^incf"}
		fails := []string{".//(0)", `.+("s")`, ".nopeprop"}
		for _, s1 := range steps {
			for _, s2 := range append(append([]string{}, steps...), fails...) {
				for _, s3 := range append(append([]string{}, steps...), fails[:1]...) {
					plain := fmt.Sprintf("incf := {|n| n + 1}\nub := 20%s\nua := 0.try.{|z| ub%s}.A\nuc := 0.try.{|z| ub%s}.A\n[ub, ua[0], ua[1] != nil, uc[0], uc[1] != nil, ub]", s1, s2, s3)
					wrapped := fmt.Sprintf("incf := {|n| n + 1}\nbase := 20.try%s\na := base%s\nc := base%s\n[base.val, a.val, a.err?, c.val, c.err?, base.val]", s1, s2, s3)
					po := ip.Run(plain, interp.Options{})
					wo := ip.Run(wrapped, interp.Options{})
					n++
					if !po.OK() {
						panic("C13 harness: plain branching program does not evaluate: " + plain + " → " + po.Outcome())
					}
					if !wo.OK() || wo.Inspect != po.Inspect {
						vs.add("C13|kept-intermediate|continued-twice", fmt.Sprintf("wrapped:\n%s\n→ %s\nplain:\n%s\n→ %s", wrapped, wo.Outcome(), plain, po.Outcome()), wrapped)
					}
				}
			}
		}
		r := fw.Result{Verdict: fw.Held, Evals: 2 * n, Counters: map[string]int{"branching_programs": n, "chains": n}, DKeys: []string{"kept-intermediate"}}
		vs.finish(&r)
		w.End(r)
	}
	chunk := 40
	for start := 0; start < len(chains); start += chunk {
		if !w.Take() {
			continue
		}
		if ip == nil {
			ip = interp.New()
		}
		end := start + chunk
		if end > len(chains) {
			end = len(chains)
		}
		w.Begin(fmt.Sprintf("chains %d-%d", start, end), map[string]any{"from": start, "to": end})
		var vs violSet
		var dks []string
		n := 0
		var sample string
		for _, c := range chains[start:end] {
			var names []string
			body := ""
			failName := "none"
			failPos := -1
			for i, s := range c.steps {
				body += s.src
				names = append(names, s.name)
				if s.fail != nil || strings.HasPrefix(s.name, "raise-") || strings.HasPrefix(s.name, "host-") || s.name == "literal-raises" || s.name == "reraise-wrapper" || s.name == "not-implemented" || s.name == "name-error" {
					if failPos < 0 {
						failName, failPos = s.name, i
					}
				}
			}
			plain := c13prelude + c.recv + body
			w.Note(c.recv + body)
			u := ip.Run(plain, interp.Options{})
			n++
			key := fmt.Sprintf("C13|%s|fail:%s", c.fam, failClass(failName))
			if failPos < 0 {
				ks := dedupAdj(names)
				sort.Strings(ks)
				key = fmt.Sprintf("C13|%s|steps:%s", c.fam, strings.Join(ks, "+"))
			}
			desc := fmt.Sprintf("plain  : %s%s → %s (stdout %q)", c.recv, body, u.Outcome(), u.Stdout)
			if u.Panic != "" || u.ParseErr != "" || u.Cutoff != "" {
				vs.add(key+"|plain-run-abnormal", desc+" "+firstLine(u.ParseErr), c.recv+body)
				continue
			}
			wrappedSrc := c13prelude + "E := " + c.recv + ".try" + body + "\n\"--\".p\n"
			other := "TypeErr"
			if u.ErrKind == "TypeErr" {
				other = "ValueErr"
			}
			var acc, want []string
			push := func(a, wnt string) { acc = append(acc, a); want = append(want, wnt) }
			if u.Err == nil {
				su := u.Inspect
				push("E.val", su)
				push("E.err", "nil")
				push("E.A", "["+su+", nil]")
				if su != "nil" {
					push("E.val?", "true")
				}
				push("E.err?", "false")
				push("E.or(777)", su)
				push("E.or(fident)", su)
				push("E.catch(TypeErr) {|e| 42}.A", "["+su+", nil]")
				push("E.ignore(TypeErr).A", "["+su+", nil]")
				push("E.abandon", su)
			} else {
				es := "[" + u.ErrKind + ": " + u.ErrMsg + "]"
				push("E.val", "nil")
				push("E.err", es)
				push("E.A", "[nil, "+es+"]")
				push("E.val?", "false")
				push("E.err?", "true")
				push("E.or(777)", "777")
				// the default is handed back as it is, whatever it is (a function is not called, nil stays nil)
				push("E.or(fident) == fident", "true")
				push("E.or({|| raise ValueErr.new(\"default was called\")}).S.len > 0", "true")
				push("E.or(nil)", "nil")
				push("E.or([1, {a: 2}])", `[1, {"a": 2}]`)
				push("E.catch("+u.ErrKind+") {|e| 42}.A", "[42, nil]")
				push("E.catch("+u.ErrKind+") {|e| e.msg}.val", quoteInspect(u.ErrMsg))
				push("E.catch("+other+") {|e| 42}.A", "[nil, "+es+"]")
				push("E.ignore("+u.ErrKind+").A", "[nil, nil]")
				push("E.ignore("+other+").A", "[nil, "+es+"]")
				push("E.err.type == "+u.ErrKind, "true")
				push("E.err.msg", quoteInspect(u.ErrMsg))
				push("E.err.kindOf?("+u.ErrKind+")", "true")
			}
			o := ip.Run(wrappedSrc+"["+strings.Join(acc, ", ")+"]", interp.Options{})
			wantIns := "[" + strings.Join(want, ", ") + "]"
			wantOut := u.Stdout + "--\n"
			switch {
			case o.Panic != "" || o.ParseErr != "" || o.Cutoff != "":
				vs.add(key+"|wrapped-run-abnormal", desc+"\nwrapped: "+o.Outcome()+" "+firstLine(o.ParseErr), c.recv+body)
			case o.Stdout != wantOut:
				vs.add(key+"|steps-called-differ", fmt.Sprintf("%s\nwrapped: %s.try%s printed %q — the same steps must run (and none after the failure)", desc, c.recv, body, o.Stdout), c.recv+body)
			case !o.OK() || o.Inspect != wantIns:
				d := firstDiffAccessor(acc, want, o, ip, wrappedSrc)
				vs.add(key+"|accessor:"+d.acc, fmt.Sprintf("%s\nwrapped: E := %s.try%s; %s → %s, want %s", desc, c.recv, body, d.src, d.got, d.want), c.recv+body)
			default:
				if u.Err != nil {
					// abandon re-raises the same kind and message
					ab := ip.Run(wrappedSrc+"E.abandon", interp.Options{})
					if ab.Err == nil || ab.ErrKind != u.ErrKind || ab.ErrMsg != u.ErrMsg {
						vs.add(key+"|accessor:abandon", fmt.Sprintf("%s\nwrapped: E.abandon → %s, must re-raise %s: %s", desc, ab.Outcome(), u.ErrKind, u.ErrMsg), c.recv+body)
					}
				}
				// the same steps applied to the wrapped receiver through a list chain (`[v.try]@f@g`): every element is
				// a `v.try` and goes through the steps exactly like the scalar spelling
				listBody, allDot := "", true
				for _, st := range c.steps {
					if !strings.HasPrefix(st.src, ".") || strings.HasPrefix(st.src, "..") {
						allDot = false
						break
					}
					listBody += "@" + st.src[1:]
				}
				if allDot && len(c.steps) > 0 {
					lo := ip.Run(c13prelude+"L := ["+c.recv+".try]"+listBody+"\n\"--\".p\nL@A", interp.Options{})
					so := ip.Run(wrappedSrc+"[E.A]", interp.Options{})
					n++
					if so.OK() && (lo.Outcome() != so.Outcome() || lo.Stdout != so.Stdout) {
						vs.add(key+"|list-chain-spelling", fmt.Sprintf("%s\nwrapped: [%s.try%s.A] → %s (stdout %q)\nthrough a list chain: [%s.try]%s@A → %s (stdout %q) %s", desc, c.recv, body, so.Outcome(), so.Stdout, c.recv, listBody, truncateMid(lo.Outcome(), 300), lo.Stdout, firstLine(lo.ParseErr)), c.recv+body)
					}
				}
				if sample == "" && u.Err != nil && len(c.steps) > 1 {
					sample = fmt.Sprintf("%s%s fails with %s: %s; %s.try… → %s ✓", c.recv, body, u.ErrKind, u.ErrMsg, c.recv, truncateMid(o.Inspect, 160))
				}
			}
			dks = append(dks, fmt.Sprintf("%s|%s|%s@%d", c.fam, strings.Join(names, ">"), failName, failPos))
		}
		r := fw.Result{Verdict: fw.Held, Evals: n * 2, DKeys: dks, Counters: map[string]int{"chains": n}}
		if sample != "" {
			r.Sample = sample
		}
		vs.finish(&r)
		w.End(r)
	}
}

func failClass(n string) string {
	if strings.HasPrefix(n, "raise-") {
		return "raise-K.new"
	}
	return n
}

func dedupAdj(s []string) []string {
	// key by the set of step kinds (sorted unique) to keep known-finding keys stable
	seen := map[string]bool{}
	var out []string
	for _, x := range s {
		x = failClass(x)
		if !seen[x] {
			seen[x] = true
			out = append(out, x)
		}
	}
	return out
}

func quoteInspect(s string) string {
	if strings.Contains(s, `"`) {
		return "`" + s + "`"
	}
	return `"` + s + `"`
}

type accDiff struct{ acc, src, got, want string }

func firstDiffAccessor(acc, want []string, o *interp.Obs, ip *interp.Interp, wrappedSrc string) accDiff {
	for i, a := range acc {
		r := ip.Run(wrappedSrc+a, interp.Options{})
		if !r.OK() || r.Inspect != want[i] {
			name := strings.SplitN(strings.TrimPrefix(a, "E."), "(", 2)[0]
			name = strings.SplitN(name, " ", 2)[0]
			return accDiff{name, a, r.Outcome(), want[i]}
		}
	}
	return accDiff{"combined", "[" + strings.Join(acc, ", ") + "]", o.Outcome(), "[" + strings.Join(want, ", ") + "]"}
}
