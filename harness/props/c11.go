package props

import (
	"fmt"
	"math"
	"strings"
	"time"

	"github.com/Syuparn/pangaea/object"

	"verif/fw"
	"verif/interp"
)

// C11 — indexing and slicing select exactly the addressed elements.
// Oracle: the statement's slice rule (clamping per direction), plus the model-free
// "nothing invented" check. Sequences and ranges are injected as values; `s[r]`,
// `s[i]` are evaluated on the real interpreter; a sample goes through source text.

type optInt struct {
	nil bool
	v   int64
}

func (o optInt) obj() object.PanObject {
	if o.nil {
		return object.BuiltInNil
	}
	return object.NewPanInt(o.v)
}
func (o optInt) String() string {
	if o.nil {
		return ""
	}
	return fmt.Sprint(o.v)
}

// refSlice returns the positions selected by start:stop:step on a sequence of length n.
func refSlice(start, stop, step optInt, n int64) []int64 {
	st := int64(1)
	if !step.nil {
		st = step.v
	}
	var lower, upper int64
	if st < 0 {
		lower, upper = -1, n-1
	} else {
		lower, upper = 0, n
	}
	fix := func(o optInt, dflt int64) int64 {
		if o.nil {
			return dflt
		}
		v := o.v
		if v < 0 {
			v += n // no overflow: v < 0, n >= 0
			if v < lower {
				v = lower
			}
		} else if v > upper {
			v = upper
		}
		return v
	}
	var s, e int64
	if st < 0 {
		s, e = fix(start, upper), fix(stop, lower)
	} else {
		s, e = fix(start, lower), fix(stop, upper)
	}
	var out []int64
	if st > 0 {
		for i := s; i < e; {
			out = append(out, i)
			if st > e-i { // would pass e (also guards overflow)
				break
			}
			i += st
		}
	} else {
		for i := s; i > e; {
			out = append(out, i)
			if st < e-i {
				break
			}
			i += st
		}
	}
	return out
}

func posClass(o optInt, n int64) string {
	switch {
	case o.nil:
		return "nil"
	case o.v > 1<<31 || o.v < -(1<<31):
		if o.v > 0 {
			return "huge+"
		}
		return "huge-"
	case o.v >= n:
		return "oob+"
	case o.v < -n:
		return "oob-"
	case o.v < 0:
		return "neg"
	}
	return "in"
}

func stepClass(o optInt) string {
	switch {
	case o.nil:
		return "nil"
	case o.v == 0:
		return "0"
	case o.v > 1<<31:
		return "huge+"
	case o.v < -(1 << 31):
		return "huge-"
	case o.v > 0:
		return "+"
	}
	return "-"
}

// c11evalDesc evaluates the source of a descendant value (set by runC11 before any sequence is made).
var c11evalDesc func(src string) object.PanObject

type c11seq struct {
	kind  string // arr | ascii | multi
	n     int
	val   object.PanObject
	runes []rune  // for strings
	elems []int64 // for arrays
	src   string  // literal source
}

var c11multi = []rune("aé日\uFFFD𝄞ßz€😀")

func c11mkSeq(kind string, n int) *c11seq {
	s := &c11seq{kind: kind, n: n}
	switch kind {
	case "arr":
		var els []object.PanObject
		var parts []string
		for i := 0; i < n; i++ {
			v := int64(100 + i)
			s.elems = append(s.elems, v)
			els = append(els, object.NewPanInt(v))
			parts = append(parts, fmt.Sprint(v))
		}
		s.val = object.NewPanArr(els...)
		s.src = "[" + strings.Join(parts, ", ") + "]"
	case "arrnil":
		// every second element is nil: a nil element is an element like any other
		var els []object.PanObject
		var parts []string
		for i := 0; i < n; i++ {
			v := int64(100 + i)
			s.elems = append(s.elems, v)
			if i%2 == 1 {
				els = append(els, object.BuiltInNil)
				parts = append(parts, "nil")
			} else {
				els = append(els, object.NewPanInt(v))
				parts = append(parts, fmt.Sprint(v))
			}
		}
		s.val = object.NewPanArr(els...)
		s.src = "[" + strings.Join(parts, ", ") + "]"
	case "strdesc", "arrdesc":
		// descendants made with bear (with and without own props): indexing and slicing reach the sequence they inherit from
		base := c11mkSeq(map[string]string{"strdesc": "multi", "arrdesc": "arr"}[kind], n)
		s.runes, s.elems = base.runes, base.elems
		s.src = base.src + []string{".bear", ".bear({tag: 1})"}[n%2]
		s.val = c11evalDesc(s.src)
	case "ascii":
		s.runes = []rune("abcdefghij")[:n]
		s.val = object.NewPanStr(string(s.runes))
		s.src = `"` + string(s.runes) + `"`
	case "multi":
		s.runes = c11multi[:n]
		s.val = object.NewPanStr(string(s.runes))
		s.src = `"` + string(s.runes) + `"`
	}
	return s
}

// compare an observed slice result against expected positions. returns symptom ("" if ok).
func (s *c11seq) judgeSlice(o *interp.Obs, want []int64) (symptom, detail string) {
	if o.Panic != "" || o.NilVal {
		return "host-panic", o.Outcome()
	}
	if o.Err != nil {
		return "unexpected-error", o.Outcome()
	}
	if s.kind == "arrnil" {
		var parts []string
		for _, p := range want {
			if p%2 == 1 {
				parts = append(parts, "nil")
			} else {
				parts = append(parts, fmt.Sprint(s.elems[p]))
			}
		}
		if exp := "[" + strings.Join(parts, ", ") + "]"; o.Inspect != exp {
			return "wrong-elements", fmt.Sprintf("got %s, want %s (positions %v)", o.Inspect, exp, want)
		}
		return "", ""
	}
	if s.kind == "arr" || s.kind == "arrdesc" {
		arr, ok := o.Val.(*object.PanArr)
		if !ok {
			return "not-an-array", o.Outcome()
		}
		// nothing invented
		if len(arr.Elems) > s.n {
			return "invented", fmt.Sprintf("result longer than the sequence: %s", o.Inspect)
		}
		for _, e := range arr.Elems {
			pi, ok := e.(*object.PanInt)
			if !ok || pi.Value < 100 || pi.Value >= int64(100+s.n) {
				return "invented", fmt.Sprintf("result %s contains %s which is not an element", o.Inspect, interp.SafeInspect(e))
			}
		}
		if len(arr.Elems) != len(want) {
			return "wrong-elements", fmt.Sprintf("got %s, want positions %v", o.Inspect, want)
		}
		for i, e := range arr.Elems {
			if e.(*object.PanInt).Value != s.elems[want[i]] {
				return "wrong-elements", fmt.Sprintf("got %s, want positions %v", o.Inspect, want)
			}
		}
		return "", ""
	}
	str, ok := o.Val.(*object.PanStr)
	if !ok {
		return "not-a-string", o.Outcome()
	}
	var wr []rune
	for _, p := range want {
		wr = append(wr, s.runes[p])
	}
	got := []rune(str.Value)
	if len(got) > s.n {
		return "invented", fmt.Sprintf("result %q longer than the sequence", str.Value)
	}
	if string(got) != string(wr) {
		for _, r := range got {
			if !strings.ContainsRune(string(s.runes), r) {
				return "invented", fmt.Sprintf("result %q contains %q which is not a character of the string", str.Value, string(r))
			}
		}
		return "wrong-elements", fmt.Sprintf("got %q, want %q (positions %v)", str.Value, string(wr), want)
	}
	return "", ""
}

func init() {
	fw.Register(&fw.Prop{
		ID:    "C11",
		Level: "exploration",
		Rule: "for each sequence kind (array of distinct ints, ASCII string, multi-byte string) and each length 0..N: every (start, stop, step) from W³ with W = [-N-2,N+2] ∪ {nil} ∪ int64 extremes (step also 0), " +
			"as range values through `s[r]`, every index i in W through `s[i]`, and a seed-chosen sample through source text `s[a:b:c]`. " +
			"non-trivial = the oracle judged the result (all cases); distinct = distinct (kind, length, start class, stop class, step class, result length) tuples" +
			" Added: arrays with nil elements; every range value is first used on a sequence of another length.",
		Assumptions: []string{
			"the slice rule of the statement coincides with Python's slice.indices (clamping per direction); transcribed in refSlice",
			"a case that does not return within the 60 s watchdog or exceeds the 3 GiB heap guard is a violation (the specified computation is O(n), n ≤ 8)",
		},
		NoReturnIsViolation: true,
		CaseTimeout:         60 * time.Second,
		Exhaustive:          func(string) bool { return true },
		Floor: func(m *fw.Merged) string {
			if m.Counters["cube_cases_completed"] < m.Counters["cube_cases_expected"] || m.Counters["cube_cases_expected"] == 0 {
				return fmt.Sprintf("cube incomplete: %d/%d", m.Counters["cube_cases_completed"], m.Counters["cube_cases_expected"])
			}
			return ""
		},
		Run: runC11,
	})
}

func runC11(w *fw.W) {
	N := w.Pick(4, 8)
	var W []optInt
	W = append(W, optInt{nil: true})
	for v := int64(-N - 2); v <= int64(N+2); v++ {
		W = append(W, optInt{v: v})
	}
	for _, v := range []int64{math.MaxInt64, -math.MaxInt64, math.MinInt64, 1 << 62, -(1 << 62), 1 << 32, -(1 << 32), math.MaxInt64 - 1, math.MinInt64 + 1} {
		W = append(W, optInt{v: v})
	}
	steps := append([]optInt{}, W...)
	var ip *interp.Interp
	var tSlice, tIdx *interp.Template
	setup := func() {
		if ip == nil {
			ip = interp.New()
			tSlice = interp.MustTemplate("s[r]")
			tIdx = interp.MustTemplate("s[i]")
			c11evalDesc = func(src string) object.PanObject {
				o := ip.Run(src, interp.Options{})
				if !o.OK() {
					panic("C11 harness: descendant does not evaluate: " + src + " → " + o.Outcome())
				}
				return o.Val
			}
		}
	}
	kinds := []string{"arr", "ascii", "multi", "arrnil", "strdesc", "arrdesc"}
	for _, kind := range kinds {
		for n := 0; n <= N; n++ {
			take := w.Take()
			if !take {
				continue
			}
			setup()
			seq := c11mkSeq(kind, n)
			aux := c11mkSeq("arr", (n+3)%(N+1))
			w.Begin(fmt.Sprintf("cube %s n=%d", kind, n), map[string]any{"kind": kind, "n": n, "seq": seq.src})
			dk := map[string]struct{}{}
			var viol []fw.SubViolation
			vseen := map[string]bool{}
			evals := 0
			var samples []string
			report := func(key, detail string, rp any) {
				if vseen[key] {
					return
				}
				vseen[key] = true
				viol = append(viol, fw.SubViolation{VKey: key, Detail: detail, Replay: rp})
			}
			// indexes
			for _, i := range W {
				if i.nil {
					continue
				}
				o := ip.EvalT(tIdx, map[string]object.PanObject{"s": seq.val, "i": i.obj()}, 0)
				evals++
				src := fmt.Sprintf("%s[%d]", seq.src, i.v)
				want := "nil"
				pos := i.v
				if pos < 0 {
					pos += int64(n)
				}
				inRange := i.v >= -int64(n) && i.v < int64(n)
				if inRange {
					if kind == "arr" || kind == "arrdesc" {
						want = fmt.Sprint(seq.elems[pos])
					} else if kind == "arrnil" {
						want = fmt.Sprint(seq.elems[pos])
						if pos%2 == 1 {
							want = "nil"
						}
					} else {
						want = `"` + string(seq.runes[pos]) + `"`
					}
				}
				if o.Panic != "" || o.NilVal || o.Err != nil || o.Inspect != want {
					report(fmt.Sprintf("C11|index|%s|%s", kind, posClass(i, int64(n))), fmt.Sprintf("%s → %s, want %s", src, o.Outcome(), want), src)
				}
				dk[fmt.Sprintf("idx|%s|%d|%s", kind, n, posClass(i, int64(n)))] = struct{}{}
			}
			// slices
			for _, a := range W {
				for _, b := range W {
					for _, c := range steps {
						w.Note(fmt.Sprintf("%s[%s:%s:%s]", seq.src, a, b, c))
						r := object.NewPanRange(a.obj(), b.obj(), c.obj())
						// the same range value is first used on a sequence of another length (a range does not remember a sequence)
						if c.nil || c.v != 0 {
							ao := ip.EvalT(tSlice, map[string]object.PanObject{"s": aux.val, "r": r}, 0)
							evals++
							if sym, det := aux.judgeSlice(ao, refSlice(a, b, c, int64(aux.n))); sym != "" {
								report("C11|slice|aux|"+sym, fmt.Sprintf("%s[%s:%s:%s]: %s", aux.src, a, b, c, det), aux.src)
							}
						}
						o := ip.EvalT(tSlice, map[string]object.PanObject{"s": seq.val, "r": r}, 0)
						evals++
						src := fmt.Sprintf("%s[%s:%s:%s]", seq.src, a, b, c)
						cls := fmt.Sprintf("%s|start:%s|stop:%s|step:%s", kind, posClass(a, int64(n)), posClass(b, int64(n)), stepClass(c))
						if !c.nil && c.v == 0 {
							if o.Panic != "" || o.Err == nil || o.ErrKind != "ValueErr" {
								report("C11|slice|"+kind+"|step0-no-ValueErr", fmt.Sprintf("%s → %s, want ValueErr", src, o.Outcome()), src)
							}
							dk["step0|"+kind+fmt.Sprint(n)] = struct{}{}
							continue
						}
						want := refSlice(a, b, c, int64(n))
						if sym, det := seq.judgeSlice(o, want); sym != "" {
							report("C11|slice|"+cls+"|"+sym, fmt.Sprintf("%s: %s", src, det), src)
						} else if len(samples) < 2 && len(want) >= 2 && !c.nil && c.v < 0 {
							samples = append(samples, fmt.Sprintf("%s → %s ✓", src, o.Inspect))
						}
						dk[fmt.Sprintf("%s|%d|%d", cls, n, len(want))] = struct{}{}
					}
				}
			}
			res := fw.Result{Verdict: fw.Held, Evals: evals, Counters: map[string]int{"cube_cases_completed": 1, "slices_and_indexes": evals}}
			for k := range dk {
				res.DKeys = append(res.DKeys, k)
			}
			if len(samples) > 0 {
				res.Sample = samples
			}
			if len(viol) > 0 {
				res.Verdict = fw.Violated
				res.VKey, res.Detail, res.Replay = viol[0].VKey, viol[0].Detail, viol[0].Replay
				res.More = viol[1:]
			}
			w.End(res)
		}
	}
	// expected number of cube cases (counted once, by the worker owning this bookkeeping case)
	if w.Take() {
		w.Begin("bookkeeping", nil)
		w.End(fw.Result{Verdict: fw.Held, Evals: 0, Counters: map[string]int{"cube_cases_expected": len(kinds) * (N + 1)}})
	}

	// one slice site evaluated several times with different bound values (in a function, in a chain): every
	// evaluation uses the values its operands have then
	if w.Take() {
		setup()
		w.Begin("slice sites evaluated repeatedly", nil)
		var vs violSet
		n := 0
		render := func(seq *c11seq, pos []int64) string {
			if seq.kind == "arr" {
				var p []string
				for _, i := range pos {
					p = append(p, fmt.Sprint(seq.elems[i]))
				}
				return "[" + strings.Join(p, ", ") + "]"
			}
			var rs []rune
			for _, i := range pos {
				rs = append(rs, seq.runes[i])
			}
			return `"` + string(rs) + `"`
		}
		oi := func(v int64) optInt { return optInt{v: v} }
		none := optInt{nil: true}
		for _, kind := range []string{"arr", "multi", "ascii"} {
			for ln := 3; ln <= 6; ln++ {
				seq := c11mkSeq(kind, ln)
				calls := [][2]int64{{1, 2}, {3, 1}, {2, 2}, {1, 3}, {4, 1}}
				var srcCalls, wants []string
				for _, c := range calls {
					nn, mm := c[0], c[1]
					srcCalls = append(srcCalls, fmt.Sprintf("f(sq, %d, %d)", nn, mm))
					wants = append(wants, "["+strings.Join([]string{
						render(seq, refSlice(oi(-nn), none, none, int64(ln))), render(seq, refSlice(none, oi(-mm), none, int64(ln))),
						render(seq, refSlice(none, none, oi(-nn), int64(ln))), render(seq, refSlice(oi(-mm), oi(nn), none, int64(ln))),
						render(seq, refSlice(oi(nn), none, oi(mm), int64(ln)))}, ", ")+"]")
				}
				for _, form := range []string{
					"f := {|s, n, m| [s[-n:], s[:-m], s[::-n], s[-m:n], s[n::m]]}\n[%s]",
					"f := {|s, n, m| r1 := (-n:); r2 := (:-m); [s[r1], s[r2], s[::-n], s[-m:n], s[n::m]]}\n[%s]",
				} {
					src := "sq := " + seq.src + "\n" + fmt.Sprintf(form, strings.Join(srcCalls, ", "))
					o := ip.Run(src, interp.Options{})
					n++
					if want := "[" + strings.Join(wants, ", ") + "]"; !o.OK() || o.Inspect != want {
						vs.add("C11|slice|site-evaluated-repeatedly|"+kind, fmt.Sprintf("%s\n→ %s\nwant %s", src, o.Outcome(), want), src)
					}
				}
			}
		}
		r := fw.Result{Verdict: fw.Held, Evals: n, Counters: map[string]int{"repeated_site_programs": n}, DKeys: []string{"repeated-sites"}}
		vs.finish(&r)
		w.End(r)
	}

	// source-text sample: the same rule through the parser (`s[a:b:c]`, `s[i]` written out)
	nsrc := w.Pick(4000, 200000)
	batch := 250
	for k := 0; k < nsrc/batch; k++ {
		if !w.Take() {
			continue
		}
		setup()
		w.Begin(fmt.Sprintf("source batch %d", k), map[string]any{"batch": k})
		rng := w.Rand()
		var viol []fw.SubViolation
		vseen := map[string]bool{}
		dk := map[string]struct{}{}
		var sample string
		for j := 0; j < batch; j++ {
			kind := kinds[rng.Intn(len(kinds))]
			n := rng.Intn(N + 1)
			seq := c11mkSeq(kind, n)
			a, b, c := W[rng.Intn(len(W))], W[rng.Intn(len(W))], W[rng.Intn(len(W))]
			lit := func(o optInt) string {
				if o.nil {
					return ""
				}
				if o.v == math.MinInt64 {
					return "(-9223372036854775807 - 1)"
				}
				return fmt.Sprint(o.v)
			}
			src := fmt.Sprintf("%s[%s:%s:%s]", seq.src, lit(a), lit(b), lit(c))
			if c.nil {
				// `[a:b:]` is not in the grammar; an omitted step is written `[a:b]` or `[a:b:nil]`
				if rng.Intn(2) == 0 {
					src = fmt.Sprintf("%s[%s:%s]", seq.src, lit(a), lit(b))
				} else {
					src = fmt.Sprintf("%s[%s:%s:nil]", seq.src, lit(a), lit(b))
				}
			}
			w.Note(src)
			o := ip.Run(src, interp.Options{})
			cls := fmt.Sprintf("%s|start:%s|stop:%s|step:%s", kind, posClass(a, int64(n)), posClass(b, int64(n)), stepClass(c))
			if o.ParseErr != "" {
				if !vseen["parse"] {
					vseen["parse"] = true
					viol = append(viol, fw.SubViolation{VKey: "C11|source|does-not-parse", Detail: src + ": " + o.ParseErr, Replay: src})
				}
				continue
			}
			if !c.nil && c.v == 0 {
				if o.Err == nil || o.ErrKind != "ValueErr" {
					key := "C11|slice|" + kind + "|step0-no-ValueErr"
					if !vseen[key] {
						vseen[key] = true
						viol = append(viol, fw.SubViolation{VKey: key, Detail: src + " → " + o.Outcome(), Replay: src})
					}
				}
				continue
			}
			want := refSlice(a, b, c, int64(n))
			if sym, det := seq.judgeSlice(o, want); sym != "" {
				key := "C11|slice|" + cls + "|" + sym
				if !vseen[key] {
					vseen[key] = true
					viol = append(viol, fw.SubViolation{VKey: key, Detail: src + ": " + det, Replay: src})
				}
			} else if sample == "" && len(want) > 1 {
				sample = src + " → " + o.Inspect + " ✓"
			}
			dk["src|"+cls] = struct{}{}
		}
		res := fw.Result{Verdict: fw.Held, Evals: batch, Counters: map[string]int{"through_source_text": batch}}
		for k := range dk {
			res.DKeys = append(res.DKeys, k)
		}
		if sample != "" {
			res.Sample = sample
		}
		if len(viol) > 0 {
			res.Verdict = fw.Violated
			res.VKey, res.Detail, res.Replay = viol[0].VKey, viol[0].Detail, viol[0].Replay
			res.More = viol[1:]
		}
		w.End(res)
	}
}
