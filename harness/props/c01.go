package props

import (
	"bytes"
	"errors"
	"fmt"
	"io"
	"math/rand"
	"os"
	"os/exec"
	"path/filepath"
	"regexp"
	"sort"
	"strings"
	"time"

	"github.com/Syuparn/pangaea/object"
	"github.com/Syuparn/pangaea/runscript"

	"verif/fw"
	"verif/interp"
)

// C01 — no host-level crash: every program ends in a syntax error report, a value or a
// Pangaea error with a stack trace.

var (
	reHex = regexp.MustCompile(`0x[0-9a-fA-F]+`)
	reNum = regexp.MustCompile(`[0-9]+`)
	reQuo = regexp.MustCompile("`[^`]*`|\"[^\"]*\"")
)

func panicClass(msg string) string {
	msg = reHex.ReplaceAllString(msg, "X")
	msg = reQuo.ReplaceAllString(msg, "S")
	msg = reNum.ReplaceAllString(msg, "N")
	if len(msg) > 90 {
		msg = msg[:90]
	}
	return msg
}

func memoryProviso(msg string) bool {
	for _, s := range []string{"makeslice: len out of range", "makeslice: cap out of range", "Repeat count causes overflow", "Repeat output length overflow",
		"out of memory", "cannot allocate", "growslice: len out of range", "negative Repeat count"} {
		if strings.Contains(msg, s) && s != "negative Repeat count" {
			return true
		}
	}
	return false
}

var reDigits5 = regexp.MustCompile(`[0-9]{5,}`)

// provisoPlausible reports whether a program could legitimately ask for a huge allocation: it mentions a number
// of ≥ 5 digits, a pool value tagged big, an infinity, or at least two growth operators (* ** <<). An
// allocation-size panic in a program with none of these is a computing error (e.g. a negative capacity).
func provisoPlausible(p *Pool, src string) bool {
	text := src
	for _, v := range p.Vals {
		if mentionsName(src, v.Name) {
			if v.Has("big") || v.Has("inf") {
				return true
			}
			text += " " + v.Src
		}
	}
	if reDigits5.MatchString(text) || strings.Contains(text, "inf") || strings.Contains(text, "e308") {
		return true
	}
	return strings.Count(text, "*")+strings.Count(text, "<<")+strings.Count(text, "times")+strings.Count(text, "join") >= 2
}

// mentionsName reports whether src uses the identifier name (not merely as a part of a longer one).
func mentionsName(src, name string) bool {
	for i := 0; ; {
		k := strings.Index(src[i:], name)
		if k < 0 {
			return false
		}
		k += i
		end := k + len(name)
		before := k == 0 || !isIdentByte(src[k-1])
		after := end >= len(src) || !isIdentByte(src[end])
		if before && after {
			return true
		}
		i = k + 1
	}
}

func isIdentByte(c byte) bool {
	return c == '_' || c >= '0' && c <= '9' || c >= 'a' && c <= 'z' || c >= 'A' && c <= 'Z'
}

// c01judge classifies one observation. key=="" means held or inconclusive (reason set).
func c01judge(o *interp.Obs, topLevel bool) (key, detail, reason string) {
	switch {
	case o.Cutoff != "":
		return "", "", "cutoff-" + o.Cutoff
	case o.Panic != "":
		if memoryProviso(o.Panic) {
			return "", "", "memory-proviso"
		}
		site := interp.PanicSite(o.PanicStk, 2)
		return "C01|panic|" + site + "|" + panicClass(o.Panic), "host panic: " + o.Panic + "\n" + firstRepoFrames(o.PanicStk, 6), ""
	case o.NilVal:
		return "C01|go-nil-result", "evaluation returned a Go nil instead of a value", ""
	case o.Err != nil && topLevel && strings.TrimSpace(o.Stack) == "":
		return "C01|error-without-stack-trace|" + o.ErrKind, "top-level error has an empty stack trace: " + o.Inspect, ""
	}
	return "", "", ""
}

func firstRepoFrames(stk string, n int) string {
	var keep []string
	ls := strings.Split(stk, "\n")
	for i := 0; i+1 < len(ls) && len(keep) < n; i++ {
		if strings.HasPrefix(ls[i], "github.com/Syuparn/pangaea/") || strings.HasPrefix(ls[i], "github.com/macrat/") {
			keep = append(keep, ls[i]+" "+strings.TrimSpace(ls[i+1]))
		}
	}
	return strings.Join(keep, "\n")
}

type catEntry struct {
	proto string
	prop  string
}

// catalogue of (prototype, property) pairs found at run time.
func c01catalogue(ip *interp.Interp) []catEntry {
	var out []catEntry
	for _, n := range poolProtoNames {
		v, ok := ip.Const.Get(object.GetSymHash(n))
		if !ok {
			continue
		}
		obj, ok := v.(*object.PanObj)
		if !ok || obj.Pairs == nil {
			continue
		}
		var names []string
		for h := range *obj.Pairs {
			if s, ok := object.SymHash2Str(h); ok {
				names = append(names, s.(*object.PanStr).Value)
			}
		}
		sort.Strings(names)
		for _, p := range names {
			out = append(out, catEntry{n, p})
		}
	}
	return out
}

var identRe = regexp.MustCompile(`^[a-zA-Z_][a-zA-Z0-9_]*[!?]?$`)

var protoFamily = map[string]string{"Int": "int", "Float": "float", "Num": "int", "Nil": "nil", "Str": "str", "Arr": "arr", "Range": "range", "Func": "func",
	"Iter": "iter", "Iterable": "arr", "Comparable": "int", "Obj": "obj", "BaseObj": "obj", "Map": "map", "Either": "either", "EitherVal": "either",
	"EitherErr": "either", "Wrappable": "either", "Err": "errw"}

func (p *Pool) pick(rng *rand.Rand, family string) *PoolVal {
	if family != "" && rng.Intn(2) == 0 {
		var c []*PoolVal
		for _, v := range p.Vals {
			if v.Family == family {
				c = append(c, v)
			}
		}
		if len(c) > 0 {
			return c[rng.Intn(len(c))]
		}
	}
	return p.Vals[rng.Intn(len(p.Vals))]
}

var c01kw = []string{"base: %s", "end: %s", "sep: %s", "private?: %s", "init: %s", "zzz: %s", "key: %s", "step: %s"}

func c01callSource(rng *rand.Rand, pool *Pool, e catEntry) (src string, shape string) {
	fam := protoFamily[e.proto]
	recv := pool.pick(rng, fam)
	for recv.Has("big") && rng.Intn(10) != 0 {
		// a huge int receiver makes every Iterable property loop for minutes outside Eval
		// (the statement's time/memory proviso): keep it to a tenth of the draws
		recv = pool.pick(rng, fam)
	}
	nargs := rng.Intn(4)
	var args, argFams []string
	for i := 0; i < nargs; i++ {
		a := pool.pick(rng, "")
		if rng.Intn(4) == 0 {
			// zero-like values of every type (0, 0.0, "", [], {}, nil, false, typed zeros of descendants)
			var zs []*PoolVal
			for _, v := range pool.Vals {
				if v.Has("zero") {
					zs = append(zs, v)
				}
			}
			if len(zs) > 0 {
				a = zs[rng.Intn(len(zs))]
			}
		}
		args = append(args, a.Name)
		argFams = append(argFams, a.Family)
	}
	if rng.Intn(5) == 0 {
		a := pool.pick(rng, "")
		args = append(args, fmt.Sprintf(c01kw[rng.Intn(len(c01kw))], a.Name))
		argFams = append(argFams, "kw")
	}
	al := strings.Join(args, ", ")
	prop := e.prop
	form := rng.Intn(7)
	if !identRe.MatchString(prop) && form < 4 && form != 3 {
		// operator-like names are callable as `recv.+(args)`
	}
	switch form {
	case 0, 1:
		src = fmt.Sprintf("%s.%s(%s)", recv.Name, prop, al)
		shape = "dot"
	case 2:
		src = fmt.Sprintf("%s@%s(%s)", recv.Name, prop, al)
		shape = "list-chain"
	case 3:
		src = fmt.Sprintf("%s$(%s)%s(%s)", recv.Name, pool.pick(rng, "").Name, prop, al)
		shape = "reduce-chain"
	case 4:
		// reaches the Go built-in with an arbitrary (possibly empty) argument list
		src = fmt.Sprintf("%s['%s](%s)", e.proto, prop, al)
		shape = "direct"
	case 5:
		src = fmt.Sprintf("%s['%s](%s, %s)", e.proto, prop, recv.Name, al)
		if al == "" {
			src = fmt.Sprintf("%s['%s](%s)", e.proto, prop, recv.Name)
		}
		shape = "direct-with-recv"
	default:
		src = fmt.Sprintf("%s~.%s(%s).try.%s(%s)", recv.Name, prop, al, prop, al)
		shape = "thoughtful+try"
	}
	return src, fmt.Sprintf("%s#%s|%s|%s|%s", e.proto, e.prop, shape, recv.Family, strings.Join(argFams, ","))
}

// selfContained turns a program over pool names into one that runs anywhere (CLI cross-check).
func (p *Pool) selfContained(src string) string {
	var b strings.Builder
	b.WriteString(strings.TrimSpace(poolPrelude) + "\n")
	for _, v := range p.Vals {
		if mentionsName(src, v.Name) {
			b.WriteString(v.Name + " := " + v.Src + "\n")
		}
	}
	b.WriteString(src + "\n")
	return b.String()
}

// ---- grammar fuzzer: random, mostly ill-typed programs over the whole surface syntax
type gfuzz struct {
	rng  *rand.Rand
	pool *Pool
}

var gInfix = []string{"+", "-", "*", "/", "//", "%", "**", "==", "!=", "===", "!==", "<", ">", "<=", ">=", "<=>", "<<", ">>", "/&", "/|", "/^", "&&", "||"}
var gPrefix = []string{"!", "-", "+", "/~", "*", "**"}
var gProps = []string{"p", "S", "A", "B", "len", "at", "keys", "values", "sum", "rev", "next", "new", "bear", "proto", "try", "val", "err", "call", "map", "has?", "join", "repr", "T", "uniq", "sort", "A.len", "_iter", "which", "eval", "evalEnv", "F", "I", "O", "M", "times", "chr", "ord", "uc", "lc", "sub", "match", "digest", "zip", "items", "callProp", "ancestors", "kindOf?", "nope"}
var gChains = []string{".", "@", "$", "&.", "&@", "&$", "~.", "~@", "~$", "=.", "=@", "=$"}

func (g *gfuzz) atom() string {
	r := g.rng
	switch r.Intn(14) {
	case 0:
		return fmt.Sprint(r.Intn(20) - 3)
	case 1:
		return []string{"nil", "true", "false", "_", "<>", "\\", "\\0", "\\1", "\\_", "\\k", "self", "recur", "Int", "Str", "Arr", "Obj", "Map", "Err", "Iter", "Kernel", "JSON", "Either"}[r.Intn(22)]
	case 2:
		return []string{`""`, `"a"`, `"#{1}"`, "`raw`", "?c", "'sym", "'+", `"a#{[1, 2]}b#{nil}"`, "1.5", "0x1f", "1e3", "0.0"}[r.Intn(12)]
	case 3:
		return []string{"[]", "{}", "%{}", "(1:3)", "(::-1)", "(nil:nil:0)", "[1, 2, 3]", "{a: 1}", "%{1: 2}", "<{|i| yield i if i < 3; recur(i + 1)}>", "%{[1]: 2}", "{|x| x}", "m{|x| self}", "{|x, k: 1| x + k}"}[r.Intn(14)]
	default:
		return g.pool.Vals[r.Intn(len(g.pool.Vals))].Name
	}
}

func (g *gfuzz) list(d, max int) string {
	n := g.rng.Intn(max + 1)
	var p []string
	for i := 0; i < n; i++ {
		switch g.rng.Intn(8) {
		case 0:
			p = append(p, "*"+g.expr(d))
		case 1:
			p = append(p, "**"+g.expr(d))
		case 2:
			p = append(p, []string{"k", "base", "sep", "init", "private?"}[g.rng.Intn(5)]+": "+g.expr(d))
		default:
			p = append(p, g.expr(d))
		}
	}
	return strings.Join(p, ", ")
}

func (g *gfuzz) expr(d int) string {
	r := g.rng
	if d <= 0 || r.Intn(4) == 0 {
		return g.atom()
	}
	switch r.Intn(22) {
	case 0, 1, 2:
		return "(" + g.expr(d-1) + " " + gInfix[r.Intn(len(gInfix))] + " " + g.expr(d-1) + ")"
	case 3:
		return gPrefix[r.Intn(len(gPrefix))] + g.expr(d-1)
	case 4, 5, 6:
		s := g.expr(d-1) + gChains[r.Intn(len(gChains))]
		if r.Intn(4) == 0 {
			s += "(" + g.expr(d-1) + ")"
		}
		s += gProps[r.Intn(len(gProps))]
		if r.Intn(2) == 0 {
			s += "(" + g.list(d-1, 3) + ")"
		}
		return s
	case 7:
		return g.expr(d-1) + gChains[r.Intn(len(gChains))] + "{|a, b| " + g.expr(d-1) + "}"
	case 8:
		return g.expr(d-1) + gChains[r.Intn(len(gChains))] + "^" + g.pool.Vals[r.Intn(len(g.pool.Vals))].Name
	case 9:
		return g.expr(d-1) + "[" + g.expr(d-1) + "]"
	case 10:
		return g.expr(d-1) + "[" + g.expr(d-1) + ":" + g.expr(d-1) + ":" + g.expr(d-1) + "]"
	case 11:
		return "[" + g.list(d-1, 4) + "]"
	case 12:
		return "{" + []string{"a", "b", "_c", "B", "S", "_missing", "at", "call"}[r.Intn(8)] + ": " + g.expr(d-1) + ", **" + g.expr(d-1) + "}"
	case 13:
		return "%{" + g.expr(d-1) + ": " + g.expr(d-1) + ", **" + g.expr(d-1) + "}"
	case 14:
		return "(" + g.expr(d-1) + ":" + g.expr(d-1) + ":" + g.expr(d-1) + ")"
	case 15:
		return "(" + g.expr(d-1) + " if " + g.expr(d-1) + " else " + g.expr(d-1) + ")"
	case 16:
		return `"x#{` + g.expr(d-1) + `}y#{` + g.expr(d-1) + `}"`
	case 17:
		return "{|x, k: " + g.atom() + "| " + g.stmts(d-1) + "}(" + g.list(d-1, 3) + ")"
	case 18:
		return "<{|i| " + g.stmts(d-1) + "}>.new(" + g.list(d-1, 2) + ")" + []string{".next", ".A", "@p", "", ".try.next"}[r.Intn(5)]
	case 19:
		return "(w := " + g.expr(d-1) + ")"
	case 20:
		return g.atom() + "(" + g.list(d-1, 3) + ")"
	default:
		return "m{|x| " + g.stmts(d-1) + "}.bear" + "(" + g.list(d-1, 2) + ")"
	}
}

func (g *gfuzz) stmts(d int) string {
	n := 1 + g.rng.Intn(3)
	var p []string
	for i := 0; i < n; i++ {
		switch g.rng.Intn(9) {
		case 0:
			p = append(p, []string{"return", "raise", "yield", "defer"}[g.rng.Intn(4)]+" "+g.expr(d))
		case 1:
			p = append(p, []string{"return", "raise", "yield", "defer"}[g.rng.Intn(4)]+" "+g.expr(d)+" if "+g.expr(d))
		case 2:
			p = append(p, "w "+[]string{"+", "-", "*", "&&", "||", "**", "/&"}[g.rng.Intn(7)]+"= "+g.expr(d))
		case 3:
			p = append(p, g.expr(d)+" => w")
		default:
			p = append(p, g.expr(d))
		}
	}
	return strings.Join(p, []string{"; ", "\n"}[g.rng.Intn(2)])
}

// ---- mutation fuzzer
func c01corpus() []string {
	var files []string
	for _, pat := range []string{"/repo/tests/*.pangaea", "/repo/example/*.pangaea", "/repo/native/*.pangaea"} {
		m, _ := filepath.Glob(pat)
		files = append(files, m...)
	}
	sort.Strings(files)
	var out []string
	for _, f := range files {
		b, err := os.ReadFile(f)
		if err != nil || bytes.Contains(b, []byte("http")) || bytes.Contains(b, []byte("serve")) {
			continue
		}
		out = append(out, string(b))
	}
	return out
}

var tokRe = regexp.MustCompile("[A-Za-z_][A-Za-z0-9_]*[!?]?|[0-9][0-9_.eExXa-fA-F]*|\"[^\"\\n]*\"|`[^`]*`|'[A-Za-z_+\\-*/<>=!]+|\\s+|.")

func mutate(rng *rand.Rand, src string, other string, pool *Pool) string {
	toks := tokRe.FindAllString(src, -1)
	if len(toks) == 0 {
		return src
	}
	n := 1 + rng.Intn(4)
	for k := 0; k < n && len(toks) > 0; k++ {
		i := rng.Intn(len(toks))
		switch rng.Intn(10) {
		case 0:
			toks = append(toks[:i], toks[i+1:]...)
		case 1:
			toks = append(toks[:i+1], append([]string{toks[i]}, toks[i+1:]...)...)
		case 2:
			j := rng.Intn(len(toks))
			toks[i], toks[j] = toks[j], toks[i]
		case 3:
			toks[i] = pool.Vals[rng.Intn(len(pool.Vals))].Src
		case 4:
			toks[i] = []string{"nil", "0", "-1", `""`, "[]", "{}", "%{}", "_", "<>", "(::0)", "9223372036854775807", "\\", "1.0e308", "'at"}[rng.Intn(14)]
		case 5:
			ot := tokRe.FindAllString(other, -1)
			if len(ot) > 0 {
				a := rng.Intn(len(ot))
				b := a + rng.Intn(len(ot)-a)
				toks = append(toks[:i], append(append([]string{}, ot[a:b]...), toks[i:]...)...)
			}
		case 6:
			toks[i] = []string{"\x00", "\xff\xfe", "\"", "`", "#{", "}", "(", "]", "|", "\\", "?", "'", "\r", "\t\n"}[rng.Intn(14)]
		case 7:
			toks[i] = gInfix[rng.Intn(len(gInfix))]
		case 8:
			toks[i] = gChains[rng.Intn(len(gChains))] + gProps[rng.Intn(len(gProps))]
		default:
			b := make([]byte, 1+rng.Intn(6))
			rng.Read(b)
			toks[i] = string(b)
		}
	}
	out := strings.Join(toks, "")
	if rng.Intn(40) == 0 {
		out += "\n" + strings.Repeat("x", 65536) + " := 1"
	}
	return out
}

// c01layoutSrc builds a program whose syntax error sits at a chosen layout position.
func c01layoutSrc(rng *rand.Rand) (string, string) {
	indents := []string{"", " ", "            ", "\t", "\t\t  ", strings.Repeat(" ", 200), "\u3000", "  \t  "}
	toks := []string{"`abc\nd`", "`\n`", "`a\n\n\nb`", "`" + strings.Repeat("é", 30) + "\n`", "\"日本語\"", "'sym", "`x\r\ny`",
		"`" + strings.Repeat("z", 300) + "\n\n`", "\"#{`p\nq`}\"", "1", "foo", "{|x|\n x}", "[1,\n 2]", "# c\n3", "`\n\n\n\n\n\n`"}
	heads := []string{"", "a := 1\n", "s := `l1\nl2\nl3`\n", "\n\n\n", "f := {|x|\n  x\n}\n", "# only a comment\n", "\"é\".p\r\n", "t := `" + strings.Repeat("\n", 40) + "`\n"}
	breakers := []string{"x := [1, 2\n%s%s]\nx.p", "{a: 1 %s%s}", "f(1 %s%s)", "y := %s%s %[2]s", "1 + * %s%s", "%s%s )", "(%s%s", "%s%s %[2]s %[2]s",
		"[%s%s", "%s%s := := 1", "if %s%s", "%s%s\n)\n", "1 +\n%s%s\n*", "{|a| %s%s b c}", "%s%s.", "%s%s@", "<{|| %s%s >", "%%{1: %s%s 2}"}
	hi, ii, ti, bi := rng.Intn(len(heads)), rng.Intn(len(indents)), rng.Intn(len(toks)), rng.Intn(len(breakers))
	src := heads[hi] + fmt.Sprintf(breakers[bi], indents[ii], toks[ti])
	tail := rng.Intn(4)
	switch tail {
	case 1:
		src += "\n"
	case 2:
		src = strings.ReplaceAll(src, "\n", "\r\n")
	case 3:
		src += "\n\n`unterminated"
	}
	return src, fmt.Sprintf("h%d|i%d|t%d|b%d|e%d", hi, ii, ti, bi, tail)
}

// ---- stdin doubles
type errReader struct {
	data []byte
	n    int
}

func (e *errReader) Read(p []byte) (int, error) {
	if e.n >= len(e.data) {
		return 0, errors.New("injected read error")
	}
	k := copy(p, e.data[e.n:])
	e.n += k
	return k, nil
}

type failWriter struct{}

func (failWriter) Write(p []byte) (int, error) { return 0, errors.New("injected write error") }

type stdinCase struct {
	name string
	mk   func() io.Reader
}

func c01stdins() []stdinCase {
	big := strings.Repeat("L", 70000)
	return []stdinCase{
		{"empty", func() io.Reader { return strings.NewReader("") }},
		{"lines", func() io.Reader { return strings.NewReader("one\ntwo\nthree\n") }},
		{"no-trailing-newline", func() io.Reader { return strings.NewReader("one\ntwo") }},
		{"crlf", func() io.Reader { return strings.NewReader("one\r\ntwo\r\n") }},
		{"line-over-64KiB", func() io.Reader { return strings.NewReader("a\n" + big + "\nb\n") }},
		{"nul-bytes", func() io.Reader { return strings.NewReader("a\x00b\n\x00\n") }},
		{"invalid-utf8", func() io.Reader { return strings.NewReader("\xff\xfe\n\xc3\n") }},
		{"reader-error-mid-stream", func() io.Reader { return &errReader{data: []byte("one\ntw")} }},
		{"one-byte-reader", func() io.Reader { return &chunkReader{data: []byte("one\ntwo\n"), sizes: func() int { return 1 }} }},
		{"numbers", func() io.Reader { return strings.NewReader("1\n22\n-3\n4.5\nx\n") }},
	}
}

var c01stdinProgs = []string{
	"<>.S", "<>@S", "<>.A", "<>@{|l| l.len}", `"#{<>}"`, "<>.next", "<>.next; <>.next; <>.next; <>.next", "<>@{|l| l.I}", "<>$(0){|a, l| a + l.len}",
	"<>.p", "<>@p", "[<>.next, <>.try.next.A]", "<>.A.len", "<>@I.sum", "<> == <>", "<>.B", "<>._iter.next", "<>~@{|l| l.I}", "<>.try.next.val.p",
}

func init() {
	fw.Register(&fw.Prop{
		ID:    "C01",
		Level: "exploration",
		Rule: "four generators against the real interpreter: (1) every (prototype, property) found at run time in the built-in prototypes × seed-chosen receivers/arguments from the value pool (every type, empty/zero, negative, extremes, prototypes as values, descendants) in 7 call forms incl. `Proto['prop](args…)` with arbitrary arity and keyword arguments, plus every pool value indexed by every pool value; " +
			"(2) random mostly ill-typed programs over the whole surface syntax; (3) corpus programs with token-level and byte-level mutations (NUL, invalid UTF-8, unterminated strings, 64 KiB tokens); (4) stdin-consuming programs × 10 stdin doubles (empty, CRLF, >64 KiB line, NUL, invalid UTF-8, failing reader, 1-byte reader) × failing stdout, through the evaluator boundary, runscript.RunSource, the REPL, RunTest and a sample through the built CLI. " +
			"Oracle: outcome ∈ {parse error, value, error with stack trace}; fuel/depth cut-offs, allocation-size panics and watchdog are inconclusive. distinct = distinct (prototype#property, call form, receiver family, argument families) tuples that reached evaluation + distinct generator classes; non-trivial = the program parsed and evaluation started" +
			" Added in the seeded rounds: syntax-error reports over source layouts (multi-line tokens, deep/tab/multibyte indentation, CRLF, end of input); derived objects (18 key kinds × 8 conversion producers) handed to 29 key consumers (** into functions and methods, literals, accessors, printing, JSON); ranges that run against their step direction; an allocation-size panic is only put under the memory proviso when the program contains a large operand. Sixth round: the built CLI run in a directory of modules (`-e` one-liners and script files making 2–4 relative import / invite! calls, bare and wrapped).",
		Assumptions: []string{
			"fuel 300000 Eval calls / depth 20000 / 2 GiB heap / 20 s per case are the statement's 'bounded recursion depth and memory' provisos (inconclusive, never a verdict)",
			"web/wasm/executor.go needs syscall/js; its execute() body is transcribed by interp.Run (same calls in the same order)",
		},
		CaseTimeout: 45 * time.Second,
		Floor: func(m *fw.Merged) string {
			if m.Counters["catalogue_calls"] < 3000 || m.Counters["grammar_programs"] < 1000 || m.Counters["mutants"] < 1000 || m.Counters["stdin_runs"] < 100 {
				return fmt.Sprintf("observed too little: %v", m.Counters)
			}
			return ""
		},
		Run: runC01,
	})
}

func runC01(w *fw.W) {
	var ip *interp.Interp
	var pool *Pool
	var cat []catEntry
	setup := func() {
		if ip == nil {
			ip = interp.New()
			pool, _ = BuildPool(ip, true)
			cat = c01catalogue(ip)
		}
	}
	// catalogue size must be known to every worker for enumeration: build lazily but deterministically
	setup()
	run := func(src string, opt interp.Options) *interp.Obs {
		if opt.Env == nil {
			opt.Env = pool.Scope()
		}
		return ip.Run(src, opt)
	}
	type batch struct {
		vs       violSet
		dk       map[string]struct{}
		counters map[string]int
		inc      map[string]int
		n        int
		sample   string
	}
	finish := func(b *batch) {
		r := fw.Result{Verdict: fw.Held, Evals: b.n, Counters: b.counters}
		for k, v := range b.inc {
			r.Counters["inconclusive_"+k] += v
		}
		for k := range b.dk {
			r.DKeys = append(r.DKeys, k)
		}
		if b.sample != "" {
			r.Sample = b.sample
		}
		b.vs.finish(&r)
		w.End(r)
	}
	newBatch := func() *batch {
		return &batch{dk: map[string]struct{}{}, counters: map[string]int{}, inc: map[string]int{}}
	}
	observe := func(b *batch, src string, o *interp.Obs, counter, dkey string, top bool) {
		b.n++
		b.counters[counter]++
		key, detail, reason := c01judge(o, top)
		if reason == "memory-proviso" && !provisoPlausible(pool, src) {
			// an allocation-size panic although nothing in the program is large: not the memory proviso
			key = "C01|panic|" + interp.PanicSite(o.PanicStk, 2) + "|" + panicClass(o.Panic) + "|small-operands"
			detail = "host panic: " + o.Panic + " (no large operand in the program)\n" + firstRepoFrames(o.PanicStk, 6)
			reason = ""
		}
		if key != "" {
			b.vs.add(key, "source:\n"+truncateMid(src, 600)+"\n"+detail, map[string]any{"source": src, "self_contained": pool.selfContained(src)})
		} else if reason != "" {
			b.inc[reason]++
		}
		if o.ParseErr == "" && dkey != "" {
			b.dk[dkey] = struct{}{}
		}
		if o.ParseErr != "" {
			b.counters["parse_errors"]++
		} else if o.Err != nil {
			b.counters["pangaea_errors"]++
		} else if o.OK() {
			b.counters["values"]++
		}
	}

	// (1) catalogue × arguments
	per := w.Pick(8, 80)
	for _, e := range cat {
		if !w.Take() {
			continue
		}
		w.Begin("catalogue "+e.proto+"#"+e.prop, map[string]any{"proto": e.proto, "prop": e.prop})
		rng := w.Rand()
		b := newBatch()
		for i := 0; i < per; i++ {
			src, shape := c01callSource(rng, pool, e)
			w.Note(src)
			o := run(src, interp.Options{})
			observe(b, src, o, "catalogue_calls", shape, true)
			if b.sample == "" && o.Err != nil {
				b.sample = src + " → " + o.Outcome()
			}
		}
		b.counters["catalogue_entries"] = 1
		finish(b)
	}
	// (1b) derived objects × consumers: objects/maps built by conversion props from str-like keys of every kind
	// (plain, symbol, descendants of a str, the Str prototype, private-looking, empty) handed to everything that
	// reads keys: ** expansion into user functions, literals, accessors, printing, comparison, JSON
	{
		keys := []string{`"a"`, `'width`, `'width.bear`, `Str`, `PStr.new("s")`, `"".bear`, `"with space"`, `"_p"`, `'_q.bear`, `"1"`, `""`, `"日本"`, `Str.bear`, `PStr`, `'a.bear({zz: 1})`, `1`, `nil`, `[1]`}
		producers := []string{"[[kk, 3]].O", "[[kk, 3], [kk, 4], ['b, 5]].O", "[[kk, 3]].M", "{^kk: 3}", "%{kk: 3}", "[[kk, 3]].O.bear({c: 1})", "[[kk, [[kk, 1]].O]].O", "%{kk: 3}.A.O"}
		consumers := []string{"{|width: 1, a: 2| [width, a, \\_]}(**e)", "{|x| \\_}(1, **e)", "{|x| \\_.keys}(1, **e, **e)", "{**e}", "{z: 1, **e}", "%{**e}", "%{1: 2, **e}",
			"e.keys", "e.values", "e.items", "e.S", "e.repr", "e == e", "e.bear({q: 1}).keys(private?: true)", "e@{|k, v| k}", "e.A", "e.M", "e.O", "JSON.enc(e)", "e[kk]",
			"[e].S", "e.which(kk)", "{m: m{|k: 0| k}}.m(**e)", "1.p(**e)", "e.keys(private?: true)", "{|a| a}.call(1, **e)", "[1]@{|x, k: 1| k}(**e)", "e.has?(kk)", "[e, e].uniq"}
		for ki, k := range keys {
			if !w.Take() {
				continue
			}
			w.Begin("derived objects with key "+k, map[string]any{"key": k})
			b := newBatch()
			for pi, pr := range producers {
				for ci, c := range consumers {
					src := "kk := " + k + "\ne := " + pr + "\n" + c
					w.Note(src)
					observe(b, src, run(src, interp.Options{}), "derived_object_programs", fmt.Sprintf("derived|k%d|p%d|c%d", ki, pi, ci), true)
				}
			}
			finish(b)
		}
	}
	// (1c) objects that implement the interpreter's protocols in Pangaea (their own _iter / next, call, S, B, ==, <=>,
	// _missing, _incBy, digest, at): every place the interpreter reaches for a protocol hands such an object the
	// arguments a Pangaea function needs
	{
		protos := []string{
			"{_iter: m{{n: 0, next: m{1}}}}", "{_iter: m{ {i: [10, 20, 30]._iter, next: m{.i.next * 2}} }}", "{_iter: m{[1, 2]._iter}, next: m{5}}", "{next: m{7}}",
			"{call: m{|x| x}}", "{call: m{|x, k: 1| [x, k]}}", "{S: m{\"s\"}, repr: m{\"r\"}}", "{B: m{true}}", "{'==: m{|o| true}, '!=: m{|o| false}}", "{'<=>: m{|o| 0}}.bear",
			"{_missing: m{|name, a| [name, a]}}", "{_incBy: m{|n| self}, '<=>: m{|o| -1}}", "{digest: m{|pairs, k: 0| pairs}}", "{at: m{|i| i}}", "{'+: m{|o| o}, '-%: m{1}}",
			"{_iter: 1}.bear({next: m{1}})", "{_iter: m{nil}}", "{_iter: m{{next: 3}}}", "{call: 3}", "{_name: m{\"N\"}, proto: 1}", "{keys: m{[1]}, values: m{[2]}, items: m{[[1, 2]]}}",
		}
		consumers := []string{"[p, p]@{|x| x}", "p@{|x| x}.len", "p$(0){|a, x| a + x}", "p@S", "p.A.len", "[1, 2]@^p", "3.^p", "\"#{p}\"", "(1 if p else 2)", "[p].has?(1)", "[p, 1].sort", "p + 1", "-p", "p.nope(1)", "(p:p).A",
			"[1, 2]@(p){|x| [x, x]}", "p[0]", "p == p", "[p] == [p]", "p.try.next.A", "{**p}", "%{p: 1}[p]", "p.S", "p.repr", "p~@{|x| x}.len", "p&$(1){|a, x| a}", "p.first", "[3]@p", "p.zip([1]).A.len", "p =@{|x| x}"}
		for pi, pr := range protos {
			if !w.Take() {
				continue
			}
			w.Begin("protocol object "+pr, map[string]any{"object": pr})
			b := newBatch()
			for ci, c := range consumers {
				src := "p := " + pr + "\n" + c
				w.Note(src)
				observe(b, src, run(src, interp.Options{Fuel: 20000}), "protocol_object_programs", fmt.Sprintf("protocol|o%d|c%d", pi, ci), true)
			}
			finish(b)
		}
	}
	// index: every pool value indexed by every pool value
	for _, x := range pool.Vals {
		if !w.Take() {
			continue
		}
		w.Begin("index "+x.Src, map[string]any{"recv": x.Src})
		b := newBatch()
		for _, y := range pool.Vals {
			src := x.Name + "[" + y.Name + "]"
			w.Note(src)
			observe(b, src, run(src, interp.Options{}), "index_calls", "index|"+x.Family+"|"+y.Family, true)
		}
		finish(b)
	}
	// infix / prefix operators: every operator over every ordered pair of pool values (exhaustive)
	for _, op := range gInfix {
		if !w.Take() {
			continue
		}
		w.Begin("infix "+op+" over all pool pairs", map[string]any{"op": op})
		b := newBatch()
		t := interp.MustTemplate("x " + op + " y")
		for _, x := range pool.Vals {
			if x.Has("big") && (op == "*" || op == "**" || op == "<<") {
				continue
			}
			for _, y := range pool.Vals {
				if y.Has("big") && (op == "*" || op == "**" || op == "<<") {
					continue // allocation-size territory (memory proviso)
				}
				w.Note(x.Src + " " + op + " " + y.Src)
				o := ip.EvalT(t, map[string]object.PanObject{"x": x.Val, "y": y.Val}, 200000)
				observe(b, x.Name+" "+op+" "+y.Name, o, "infix_pairs", "infix|"+op+"|"+x.Family+"|"+y.Family, true)
			}
		}
		finish(b)
	}
	if w.Take() {
		w.Begin("prefix operators over the pool", nil)
		b := newBatch()
		for _, op := range []string{"!", "-", "+", "/~"} {
			t := interp.MustTemplate(op + "x")
			for _, x := range pool.Vals {
				o := ip.EvalT(t, map[string]object.PanObject{"x": x.Val}, 200000)
				observe(b, op+x.Name, o, "prefix_calls", "prefix|"+op+"|"+x.Family, true)
			}
		}
		finish(b)
	}
	// (2) grammar fuzzer
	ng := w.Pick(30, 1000)
	for k := 0; k < ng; k++ {
		if !w.Take() {
			continue
		}
		w.Begin(fmt.Sprintf("grammar batch %d", k), map[string]any{"batch": k})
		rng := w.Rand()
		g := &gfuzz{rng: rng, pool: pool}
		b := newBatch()
		for i := 0; i < 100; i++ {
			src := g.stmts(1 + rng.Intn(4))
			w.Note(src)
			o := run(src, interp.Options{})
			observe(b, src, o, "grammar_programs", fmt.Sprintf("grammar|%s|%s", outcomeClass(o), shapeHash(src)), true)
			if b.sample == "" && o.OK() && len(src) > 30 {
				b.sample = truncateMid(src, 200) + " → " + truncateMid(o.Outcome(), 80)
			}
		}
		finish(b)
	}
	// (3) mutation fuzzer
	corpus := c01corpus()
	nm := w.Pick(30, 1000)
	for k := 0; k < nm && len(corpus) > 0; k++ {
		if !w.Take() {
			continue
		}
		w.Begin(fmt.Sprintf("mutation batch %d", k), map[string]any{"batch": k})
		rng := w.Rand()
		b := newBatch()
		for i := 0; i < 100; i++ {
			base := corpus[rng.Intn(len(corpus))]
			src := mutate(rng, base, corpus[rng.Intn(len(corpus))], pool)
			w.Note(truncateMid(src, 2000))
			o := run(src, interp.Options{FileName: "/repo/tests/mutant.pangaea"})
			observe(b, src, o, "mutants", fmt.Sprintf("mutant|%s|%s", outcomeClass(o), shapeHash(src)), true)
		}
		finish(b)
	}
	// (3b) syntax-error reports over source layouts: the offending token is (or follows) a token that
	// spans lines, sits behind deep / tab / multibyte indentation, at column 0, at end of input, after CRLF
	nl := w.Pick(8, 200)
	for k := 0; k < nl; k++ {
		if !w.Take() {
			continue
		}
		w.Begin(fmt.Sprintf("syntax-error layout batch %d", k), map[string]any{"batch": k})
		rng := w.Rand()
		b := newBatch()
		for i := 0; i < 150; i++ {
			src, cls := c01layoutSrc(rng)
			w.Note(src)
			o := run(src, interp.Options{FileName: "/repo/tests/layout.pangaea"})
			observe(b, src, o, "syntax_error_layouts", fmt.Sprintf("layout|%s|%s", outcomeClass(o), cls), true)
			if o.ParseErr != "" {
				b.counters["syntax_error_reports"]++
			}
		}
		finish(b)
	}
	// (4) stdin × programs × entry points
	stdins := c01stdins()
	for pi, prog := range c01stdinProgs {
		if !w.Take() {
			continue
		}
		w.Begin("stdin program "+prog, map[string]any{"program": prog})
		b := newBatch()
		for _, sc := range stdins {
			for _, failOut := range []bool{false, true} {
				opt := interp.Options{Stdin: sc.mk()}
				if failOut {
					opt.Stdout = failWriter{}
				}
				w.Note(prog + " stdin=" + sc.name)
				o := run(prog, opt)
				observe(b, prog+"  # stdin="+sc.name, o, "stdin_runs", fmt.Sprintf("stdin|%d|%s|%v", pi, sc.name, failOut), true)
			}
			// the same through runscript.RunSource (script / one-liner entry point) and the -n/-p templates
			for _, wrapped := range []string{prog, fmt.Sprintf(runscript.ReadStdinLinesTemplate, prog), fmt.Sprintf(runscript.ReadStdinLinesAndWritesTemplate, prog)} {
				key, detail := entryPoint(func() {
					var out bytes.Buffer
					code := runscript.RunSource(wrapped, "<c01>", sc.mk(), &out)
					if code != 0 && code != 1 {
						panic(fmt.Sprintf("exit code %d", code))
					}
				})
				b.n++
				b.counters["entry_RunSource"]++
				if key != "" {
					b.vs.add("C01|RunSource|"+key, "RunSource("+wrapped+") stdin="+sc.name+": "+detail, map[string]any{"source": wrapped, "stdin": sc.name})
				}
			}
		}
		finish(b)
	}
	// REPL sessions: generated lines incl. mode switches
	nr := w.Pick(12, 200)
	for k := 0; k < nr; k++ {
		if !w.Take() {
			continue
		}
		w.Begin(fmt.Sprintf("repl session %d", k), map[string]any{"session": k})
		rng := w.Rand()
		g := &gfuzz{rng: rng, pool: pool}
		b := newBatch()
		var lines []string
		for i := 0; i < 25; i++ {
			switch rng.Intn(9) {
			case 0:
				lines = append(lines, "multi")
			case 1:
				lines = append(lines, "single")
			case 3:
				// lines that merely resemble the mode commands
				lines = append(lines, []string{"Multi", "SINGLE", "Single", "MULTI", " multi", "multi ", "single;", "multi\t", "mul", "singles"}[rng.Intn(10)])
			case 2:
				lines = append(lines, "")
			case 4:
				if rng.Intn(3) == 0 {
					// a very long line (one long token / many short ones)
					if rng.Intn(2) == 0 {
						lines = append(lines, `"`+strings.Repeat("a", 66000+rng.Intn(9000))+`".len`)
					} else {
						lines = append(lines, "["+strings.Repeat(`"`+strings.Repeat("e", 56)+`", `, 1200)+"1].len")
					}
					break
				}
				fallthrough
			default:
				l := strings.ReplaceAll(g.stmts(2), "\n", "; ")
				for _, v := range pool.Vals {
					// REPL has its own env: use the literal source of pool values
					if strings.Contains(l, v.Name) && len(v.Src) < 40 && !strings.ContainsAny(v.Src, "PIgn") {
						l = strings.ReplaceAll(l, v.Name, "("+v.Src+")")
					}
				}
				lines = append(lines, l)
			}
		}
		// the session ends with a sentinel line (after leaving a possibly open multi-line block and mode): every
		// line of the input is answered, so the sentinel's answer must be in the transcript
		sentinel := fmt.Sprintf("sentinel_%d_%d", k, rng.Intn(1000000))
		lines = append(lines, "", "single", "", "'"+sentinel, "")
		session := strings.Join(lines, "\n") + "\n"
		w.Note(truncateMid(session, 3000))
		var transcript string
		key, detail := entryPoint(func() {
			var out bytes.Buffer
			runscript.StartREPL("pre := 1", strings.NewReader(session), &out)
			transcript = out.String()
		})
		if key == "" && !strings.Contains(transcript, `"`+sentinel+`"`) {
			key, detail = "stopped-before-the-end-of-input", "the REPL stopped answering before the end of its input: the last line `'"+sentinel+"` was never evaluated; transcript tail: "+truncateMid(transcript, 300)
		}
		b.n++
		b.counters["entry_REPL_sessions"]++
		b.counters["entry_REPL_lines"] += len(lines)
		if key != "" {
			b.vs.add("C01|REPL|"+key, "REPL session:\n"+truncateMid(session, 1500)+"\n"+detail, map[string]any{"session": session})
		}
		finish(b)
	}
	// RunTest on generated directories
	nt := w.Pick(6, 60)
	for k := 0; k < nt; k++ {
		if !w.Take() {
			continue
		}
		w.Begin(fmt.Sprintf("RunTest dir %d", k), map[string]any{"dir": k})
		rng := w.Rand()
		g := &gfuzz{rng: rng, pool: pool}
		b := newBatch()
		dir, _ := os.MkdirTemp(os.Getenv("VERIF_TMP"), "c01-test-")
		for i := 0; i < 4; i++ {
			src := "assert(true)\n" + strings.ReplaceAll(g.stmts(2), "\n", "; ")
			for _, v := range pool.Vals {
				if strings.Contains(src, v.Name) {
					src = strings.ReplaceAll(src, v.Name, "nil")
				}
			}
			os.WriteFile(filepath.Join(dir, fmt.Sprintf("t%d_test.pangaea", i)), []byte(src), 0o644)
		}
		os.WriteFile(filepath.Join(dir, "not_a_test.txt"), []byte("x"), 0o644)
		key, detail := entryPoint(func() {
			var out bytes.Buffer
			runscript.RunTest(dir, strings.NewReader("in\n"), &out)
		})
		os.RemoveAll(dir)
		b.n++
		b.counters["entry_RunTest_dirs"]++
		if key != "" {
			b.vs.add("C01|RunTest|"+key, detail, nil)
		}
		finish(b)
	}
	// CLI cross-check: a seed-chosen sample of self-contained programs through the built binary
	cli := os.Getenv("VERIF_CLI")
	nc := w.Pick(16, 100)
	for k := 0; k < nc; k++ {
		if !w.Take() {
			continue
		}
		w.Begin(fmt.Sprintf("cli batch %d", k), map[string]any{"batch": k})
		b := newBatch()
		if cli == "" {
			w.End(fw.Result{Verdict: fw.Inconclusive, Reason: "cli-binary-not-built"})
			continue
		}
		rng := w.Rand()
		g := &gfuzz{rng: rng, pool: pool}
		for i := 0; i < 8; i++ {
			var src string
			if i%2 == 0 {
				src, _ = c01callSource(rng, pool, cat[rng.Intn(len(cat))])
			} else {
				src = g.stmts(2)
			}
			full := pool.selfContained(src)
			f, _ := os.CreateTemp(os.Getenv("VERIF_TMP"), "c01-cli-*.pangaea")
			f.WriteString(full)
			f.Close()
			w.Note(full)
			cmd := exec.Command("timeout", "-s", "KILL", "5", cli, f.Name())
			cmd.Stdin = strings.NewReader("one\ntwo\n")
			var stderr, stdout bytes.Buffer
			cmd.Stderr, cmd.Stdout = &stderr, &stdout
			err := cmd.Run()
			os.Remove(f.Name())
			b.n++
			b.counters["cli_runs"]++
			code := 0
			if ee, ok := err.(*exec.ExitError); ok {
				code = ee.ExitCode()
			}
			se := stderr.String()
			switch {
			case code == 137 || code == -1:
				b.inc["cli-timeout"]++
			case strings.Contains(se, "out of memory") || strings.Contains(se, "cannot allocate") || strings.Contains(se, "makeslice") || strings.Contains(se, "Repeat"):
				b.inc["memory-proviso"]++
			case strings.Contains(se, "stack overflow") || strings.Contains(se, "goroutine stack exceeds"):
				b.inc["recursion-proviso"]++
			case (code != 0 && code != 1) || strings.Contains(se, "panic:") || strings.Contains(se, "fatal error:") || strings.Contains(se, "goroutine "):
				msg := firstMatch(se, "panic:", "fatal error:")
				b.vs.add("C01|cli|"+panicClass(msg), fmt.Sprintf("exit=%d\n%s\nprogram:\n%s", code, truncateMid(se, 800), truncateMid(full, 800)), map[string]any{"source": full})
			}
			b.dk[fmt.Sprintf("cli|exit%d", code)] = struct{}{}
		}
		finish(b)
	}
	// CLI with modules: one-liners (no source path) and script files making sequences of relative import / invite! calls
	nmod := w.Pick(6, 40)
	for k := 0; k < nmod; k++ {
		if !w.Take() {
			continue
		}
		w.Begin(fmt.Sprintf("cli modules batch %d", k), map[string]any{"batch": k})
		b := newBatch()
		if cli == "" {
			w.End(fw.Result{Verdict: fw.Inconclusive, Reason: "cli-binary-not-built"})
			continue
		}
		rng := w.Rand()
		dir, _ := os.MkdirTemp(os.Getenv("VERIF_TMP"), "c01-mods-*")
		os.MkdirAll(dir+"/sub", 0o755)
		for name, body := range map[string]string{
			"a.pangaea": "{f: {|x| x * 2}, v: 1}", "b.pangaea": "bv := 2\nbf := {|x| [x, bv]}", "bad.pangaea": "1 +* (", "boom.pangaea": "pre := 1\nraise ValueErr.new(\"boom\")",
			"empty.pangaea": "", "nested.pangaea": "inner := import(\"./sub/c\")\n{got: inner}", "sub/c.pangaea": "invite!(\"../b\")\n{c: bv}", "self.pangaea": "d := 1\n{d: d}",
		} {
			os.WriteFile(dir+"/"+name, []byte(body), 0o644)
		}
		calls := []string{`import("./a")`, `invite!("./b")`, `import("./bad")`, `invite!("./bad")`, `import("./boom")`, `invite!("./boom")`, `import("./missing")`, `invite!("./missing")`,
			`import("./empty")`, `invite!("./empty")`, `import("./nested")`, `invite!("./sub/c")`, `import("a")`, `invite!("")`, `import("./")`, `invite!("./self")`, `import(nil)`, `invite!(1)`, `import("./sub/../a")`}
		for i := 0; i < 8; i++ {
			var stmts []string
			for j, n := 0, 2+rng.Intn(3); j < n; j++ {
				c := calls[rng.Intn(len(calls))]
				switch rng.Intn(5) {
				case 3:
					// at the top level itself (an error ends the program there)
					stmts = append(stmts, c)
				case 4:
					stmts = append(stmts, fmt.Sprintf("y%d := %s", j, c))
				case 0:
					stmts = append(stmts, fmt.Sprintf("nil.try.{|u| %s}.A.p", c))
				case 1:
					stmts = append(stmts, fmt.Sprintf("nil.try.{|u| %s}.val.p", c))
				default:
					stmts = append(stmts, fmt.Sprintf("x%d := nil.try.{|u| %s}", j, c))
				}
			}
			full := strings.Join(stmts, "; ")
			w.Note(full)
			var cmd *exec.Cmd
			how := "one-liner"
			if i%4 == 3 {
				how = "script"
				os.WriteFile(dir+"/main.pangaea", []byte(strings.Join(stmts, "\n")), 0o644)
				cmd = exec.Command("timeout", "-s", "KILL", "10", cli, "main.pangaea")
			} else {
				cmd = exec.Command("timeout", "-s", "KILL", "10", cli, "-e", full)
			}
			cmd.Dir = dir
			cmd.Stdin = strings.NewReader("")
			var stderr, stdout bytes.Buffer
			cmd.Stderr, cmd.Stdout = &stderr, &stdout
			err := cmd.Run()
			b.n++
			b.counters["cli_module_runs"]++
			code := 0
			if ee, ok := err.(*exec.ExitError); ok {
				code = ee.ExitCode()
			}
			se := stderr.String()
			switch {
			case code == 137 || code == -1:
				b.inc["cli-timeout"]++
			case strings.Contains(se, "stack overflow") || strings.Contains(se, "goroutine stack exceeds"):
				b.inc["recursion-proviso"]++
			case (code != 0 && code != 1) || strings.Contains(se, "panic:") || strings.Contains(se, "fatal error:") || strings.Contains(se, "goroutine "):
				msg := firstMatch(se, "panic:", "fatal error:")
				b.vs.add("C01|cli-modules|"+panicClass(msg), fmt.Sprintf("%s in a directory with modules, exit=%d\n%s\nprogram:\n%s", how, code, truncateMid(se, 800), full), map[string]any{"source": full})
			}
			b.dk[fmt.Sprintf("cli-modules|%s|exit%d", how, code)] = struct{}{}
		}
		os.RemoveAll(dir)
		finish(b)
	}
}

func firstMatch(s string, subs ...string) string {
	for _, l := range strings.Split(s, "\n") {
		for _, sub := range subs {
			if strings.Contains(l, sub) {
				return l
			}
		}
	}
	return ""
}

// entryPoint runs f (an entry point that writes to its own buffers) and reports a host panic.
func entryPoint(f func()) (key, detail string) {
	defer func() {
		if r := recover(); r != nil {
			if c, ok := r.(interp.Cutoff); ok {
				_ = c
				return
			}
			msg := fmt.Sprint(r)
			if memoryProviso(msg) {
				return
			}
			key = "panic|" + panicClass(msg)
			detail = "host panic: " + msg
		}
	}()
	f()
	return "", ""
}

func outcomeClass(o *interp.Obs) string {
	switch {
	case o.ParseErr != "":
		return "parse-error"
	case o.Cutoff != "":
		return "cutoff"
	case o.Panic != "":
		return "panic"
	case o.Err != nil:
		return "err:" + o.ErrKind
	}
	return "val:" + o.Type
}

var reShapeWord = regexp.MustCompile(`[A-Za-z_][A-Za-z0-9_]*[!?]?`)
var reShapeNum = regexp.MustCompile(`[0-9]+`)

// shapeHash abstracts a program to its punctuation skeleton (distinct program shapes).
func shapeHash(src string) string {
	s := reShapeWord.ReplaceAllString(src, "w")
	s = reShapeNum.ReplaceAllString(s, "0")
	s = strings.Join(strings.Fields(s), "")
	if len(s) > 60 {
		s = s[:60]
	}
	return s
}

func truncateMid(s string, n int) string {
	if len(s) <= n {
		return s
	}
	return s[:n/2] + " …… " + s[len(s)-n/2:]
}
