// Package props holds one file per property: workload + oracle.
package props
