package props

import (
	"bytes"
	"fmt"
	"github.com/Syuparn/pangaea/runscript"
	"math/rand"
	"strings"

	"verif/fw"
	"verif/interp"
	"verif/ref"
)

// C03 — lexical scoping and argument binding of functions and methods.
// Oracle: the reference evaluator (package ref) over the generator's own AST; the real
// interpreter runs the printed source.

type c03gen struct {
	rng      *rand.Rand
	depth    int
	features map[string]bool
}

var c03ints = []string{"xa", "xb", "xc"}
var c03funcs = []string{"fa", "fb", "fc"}

func (g *c03gen) pick(l []string) string { return l[g.rng.Intn(len(l))] }

// pure int-ish expression readable in any scope
func (g *c03gen) atom(scopeInts []string) ref.Expr {
	if len(scopeInts) > 0 && g.rng.Intn(3) != 0 {
		return &ref.Var{Name: g.pick(scopeInts)}
	}
	return &ref.Int{V: g.rng.Intn(90) + 1}
}

func (g *c03gen) argList(scopeInts []string, nparams int, inFunc bool) []ref.Arg {
	var args []ref.Arg
	// number of positionals: fewer, equal or more than the parameters
	n := nparams + g.rng.Intn(3) - 1
	if n < 0 {
		n = 0
	}
	kwNames := []string{"ka", "kb", "kz"}
	g.rng.Shuffle(len(kwNames), func(i, j int) { kwNames[i], kwNames[j] = kwNames[j], kwNames[i] })
	nkw := g.rng.Intn(3)
	usedStar := false
	for i := 0; i < n; i++ {
		// keyword arguments may appear before, between and after positionals
		if nkw > 0 && g.rng.Intn(3) == 0 {
			args = append(args, ref.Arg{Kind: "kw", Name: kwNames[nkw-1], E: g.atom(scopeInts)})
			nkw--
			g.features["kw-interleaved"] = true
		}
		if !usedStar && g.rng.Intn(6) == 0 {
			args = append(args, ref.Arg{Kind: "star", E: &ref.ArrLit{Elems: []ref.Expr{g.atom(scopeInts), g.atom(scopeInts)}}})
			usedStar = true
			i++
			g.features["star"] = true
			continue
		}
		args = append(args, ref.Arg{Kind: "pos", E: g.atom(scopeInts)})
	}
	for ; nkw > 0; nkw-- {
		if g.rng.Intn(2) == 0 {
			args = append(args, ref.Arg{Kind: "kw", Name: kwNames[nkw-1], E: g.atom(scopeInts)})
		}
	}
	if g.rng.Intn(6) == 0 {
		// ** always last; its keys are distinct from the explicit keywords
		args = append(args, ref.Arg{Kind: "dstar", E: &ref.ObjLit{Keys: []string{"kq", "kr"}, Vals: []ref.Expr{g.atom(scopeInts), g.atom(scopeInts)}}})
		g.features["dstar"] = true
	}
	switch {
	case n < nparams:
		g.features["fewer-args"] = true
	case n > nparams:
		g.features["more-args"] = true
	}
	return args
}

func (g *c03gen) fn(level int, scopeInts, scopeFuncs []string, method bool) *ref.Func {
	f := &ref.Func{Method: method}
	// parameters: often named like outer variables (shadowing)
	np := g.rng.Intn(3)
	pool := []string{"xa", "xb", "pa", "pb"}
	g.rng.Shuffle(len(pool), func(i, j int) { pool[i], pool[j] = pool[j], pool[i] })
	f.Params = append(f.Params, pool[:np]...)
	for _, p := range f.Params {
		for _, s := range scopeInts {
			if s == p {
				g.features["param-shadows-outer"] = true
			}
		}
	}
	if g.rng.Intn(3) == 0 {
		f.Kw = append(f.Kw, ref.KwParam{Name: "ka", Default: 50 + g.rng.Intn(9)})
		if g.rng.Intn(2) == 0 {
			f.Kw = append(f.Kw, ref.KwParam{Name: "kb", Default: 60 + g.rng.Intn(9)})
		}
		g.features["kw-default"] = true
	}
	inner := append([]string{}, scopeInts...)
	inner = append(inner, f.Params...)
	for _, k := range f.Kw {
		inner = append(inner, k.Name)
	}
	if method {
		// self is an object: only used through anonymous chains / property reads
	}
	funcs := append([]string{}, scopeFuncs...)
	nst := 1 + g.rng.Intn(4)
	for i := 0; i < nst; i++ {
		switch r := g.rng.Intn(14); {
		case r < 2:
			// assignment inside a body: creates/updates only this call's variable
			n := g.pick(c03ints)
			f.Body = append(f.Body, &ref.Assign{Name: n, E: g.atom(inner)})
			inner = appendUniq(inner, n)
			g.features["assign-in-body"] = true
		case r < 4 && len(inner) > 0:
			n := g.pick(inner)
			f.Body = append(f.Body, &ref.Compound{Name: n, E: &ref.Int{V: 1 + g.rng.Intn(5)}})
			g.features["compound-in-body"] = true
		case r < 6:
			f.Body = append(f.Body, &ref.Print{E: &ref.ArrLit{Elems: []ref.Expr{g.atom(inner), g.atom(inner)}}})
		case r == 6 && level < 3:
			// nested function defined here, called here or returned
			name := g.pick(c03funcs)
			nf := g.fn(level+1, inner, funcs, false)
			f.Body = append(f.Body, &ref.Assign{Name: name, E: nf})
			funcs = appendUniq(funcs, name)
			f.Body = append(f.Body, &ref.Print{E: &ref.Call{Callee: &ref.Var{Name: name}, Args: g.argList(inner, len(nf.Params), true)}})
			g.features["nested-closure"] = true
		case r == 7 && len(funcs) > 0:
			name := g.pick(funcs)
			f.Body = append(f.Body, &ref.Print{E: &ref.Call{Callee: &ref.Var{Name: name}, Args: g.argList(inner, 1+g.rng.Intn(2), true)}})
		case r == 8:
			refs := []ref.Expr{&ref.ArgRef{Kind: "\\"}, &ref.ArgRef{Kind: "\\N", N: 1 + g.rng.Intn(3)}, &ref.ArgRef{Kind: "\\0"}, &ref.ArgRef{Kind: "\\_"},
				&ref.ArgRef{Kind: "\\name", Name: []string{"ka", "kb", "kz", "kq"}[g.rng.Intn(4)]},
				&ref.ArgRef{Kind: "\\_.keys"}, &ref.ArgRef{Kind: "\\_.values"}, &ref.ArgRef{Kind: "\\_.items"}}
			f.Body = append(f.Body, &ref.Print{E: refs[g.rng.Intn(len(refs))]})
			g.features["arg-ref"] = true
		case r == 9:
			f.Body = append(f.Body, &ref.AnonChain{Prop: "p"})
			g.features["anon-chain"] = true
		case r == 10 && level < 3:
			// return a closure over this call's frame
			nf := g.fn(level+1, inner, funcs, false)
			f.Body = append(f.Body, &ref.Return{E: nf})
			g.features["returns-closure"] = true
			return f
		case r == 11:
			f.Body = append(f.Body, &ref.Return{E: &ref.ArrLit{Elems: []ref.Expr{g.atom(inner), g.atom(inner)}}})
			return f
		default:
			f.Body = append(f.Body, &ref.Print{E: g.atom(inner)})
		}
	}
	f.Body = append(f.Body, &ref.ArrLit{Elems: []ref.Expr{g.atom(inner), g.atom(inner)}})
	return f
}

func appendUniq(l []string, s string) []string {
	for _, x := range l {
		if x == s {
			return l
		}
	}
	return append(l, s)
}

func (g *c03gen) program() []ref.Expr {
	var prog []ref.Expr
	ints := []string{}
	funcs := []string{}
	funcParams := map[string]int{}
	closures := []string{} // variables holding returned closures
	for _, n := range c03ints[:1+g.rng.Intn(3)] {
		prog = append(prog, &ref.Assign{Name: n, E: &ref.Int{V: g.rng.Intn(90) + 1}})
		ints = append(ints, n)
	}
	nst := 5 + g.rng.Intn(9)
	haveObj := false
	// focus mode: a factory whose returned closure reads enclosing variables through 2–3 intermediate
	// frames is created first, and the statements that follow favour reassignments of those variables
	// and further calls of the kept closures (call, reassign, call again, new closure from the same factory)
	focus := g.rng.Intn(3) == 0
	var mk func(cn string)
	if focus {
		g.features["focus-capture-through-frames"] = true
		leaf := &ref.Func{Body: []ref.Expr{&ref.Print{E: &ref.ArrLit{Elems: []ref.Expr{&ref.Var{Name: "xa"}, g.atom(ints), g.atom(ints)}}},
			&ref.ArrLit{Elems: []ref.Expr{g.atom(ints), &ref.Var{Name: "xa"}}}}}
		if g.rng.Intn(2) == 0 {
			// keyword default written as an expression over the factory's parameter: every closure made by the
			// factory has its own default
			leaf.Kw = []ref.KwParam{{Name: "kd", DefaultExpr: &ref.Var{Name: "xa"}}}
			leaf.Body = append([]ref.Expr{&ref.Print{E: &ref.ArrLit{Elems: []ref.Expr{&ref.Var{Name: "kd"}, &ref.Var{Name: "xa"}}}}}, leaf.Body...)
			g.features["kw-default-from-enclosing-call"] = true
		}
		snapshot := ""
		if len(ints) > 0 && g.rng.Intn(2) == 0 {
			// the factory takes a snapshot `v := v` of an enclosing variable (the very same value at that moment): the
			// call owns that variable from then on, whatever the enclosing one becomes later
			snapshot = g.pick(ints)
			leaf.Body = append([]ref.Expr{&ref.Print{E: &ref.ArrLit{Elems: []ref.Expr{&ref.Var{Name: snapshot}, &ref.Var{Name: "xa"}}}}}, leaf.Body...)
			g.features["snapshot-assignment-in-factory"] = true
		}
		depth := 2 + g.rng.Intn(2)
		var factory *ref.Func
		if depth == 2 {
			factory = &ref.Func{Params: []string{"xa"}, Body: []ref.Expr{&ref.Return{E: leaf}}}
		} else {
			mid := &ref.Func{Params: []string{"pa"}, Body: []ref.Expr{&ref.Print{E: &ref.ArrLit{Elems: []ref.Expr{&ref.Var{Name: "pa"}, g.atom(ints)}}}, &ref.Return{E: leaf}}}
			factory = &ref.Func{Params: []string{"xa"}, Body: []ref.Expr{&ref.Return{E: mid}}}
		}
		if snapshot != "" {
			factory.Body = append([]ref.Expr{&ref.Assign{Name: snapshot, E: &ref.Var{Name: snapshot}}}, factory.Body...)
		}
		prog = append(prog, &ref.Assign{Name: "fz", E: factory})
		mk = func(cn string) {
			arg := []ref.Arg{{Kind: "pos", E: &ref.Int{V: 1 + g.rng.Intn(9)}}}
			if depth == 2 {
				prog = append(prog, &ref.Assign{Name: cn, E: &ref.Call{Callee: &ref.Var{Name: "fz"}, Args: arg}})
			} else {
				prog = append(prog, &ref.Assign{Name: cn + "m", E: &ref.Call{Callee: &ref.Var{Name: "fz"}, Args: arg}})
				prog = append(prog, &ref.Assign{Name: cn, E: &ref.Call{Callee: &ref.Var{Name: cn + "m"}, Args: []ref.Arg{{Kind: "pos", E: &ref.Int{V: 10 + g.rng.Intn(9)}}}}})
			}
			closures = append(closures, cn)
		}
		mk("cl0")
		prog = append(prog, &ref.Print{E: &ref.Call{Callee: &ref.Var{Name: "cl0"}}})
	}
	if g.rng.Intn(6) == 0 {
		// objects expanded with ** are only read: the same object gives the same keywords in every later call,
		// whatever other ** operand stood next to it before; many positional arguments (\9, \10, …)
		g.features["dstar-operands-reused"] = true
		prog = append(prog, &ref.Assign{Name: "ob2", E: &ref.ObjLit{Keys: []string{"kq", "kr"}, Vals: []ref.Expr{&ref.Int{V: g.rng.Intn(90)}, &ref.Int{V: g.rng.Intn(90)}}}})
		prog = append(prog, &ref.Assign{Name: "ob3", E: &ref.ObjLit{Keys: []string{"kz"}, Vals: []ref.Expr{&ref.Int{V: g.rng.Intn(90)}}}})
		fq := &ref.Func{Params: []string{"xa"}, Kw: []ref.KwParam{{Name: "kq", Default: 0}, {Name: "kz", Default: 1}},
			Body: []ref.Expr{&ref.ArrLit{Elems: []ref.Expr{&ref.Var{Name: "xa"}, &ref.Var{Name: "kq"}, &ref.Var{Name: "kz"}, &ref.ArgRef{Kind: "\\_"}}}}}
		prog = append(prog, &ref.Assign{Name: "fq", E: fq})
		ds := func(n string) ref.Arg { return ref.Arg{Kind: "dstar", E: &ref.Var{Name: n}} }
		one := ref.Arg{Kind: "pos", E: &ref.Int{V: 1}}
		for _, args := range [][]ref.Arg{{one, ds("ob2"), ds("ob3")}, {one, ds("ob2")}, {one, ds("ob3"), ds("ob2")}, {one, ds("ob3")}, {one}} {
			if g.rng.Intn(4) != 0 {
				prog = append(prog, &ref.Print{E: &ref.Call{Callee: &ref.Var{Name: "fq"}, Args: args}})
			}
		}
		prog = append(prog, &ref.Print{E: &ref.ArrLit{Elems: []ref.Expr{&ref.Var{Name: "ob2"}, &ref.Var{Name: "ob3"}}}})
		// 9–13 positional arguments read back through \N
		na := 9 + g.rng.Intn(5)
		var many []ref.Arg
		for i := 1; i <= na; i++ {
			many = append(many, ref.Arg{Kind: "pos", E: &ref.Int{V: i * 3}})
		}
		fm := &ref.Func{Body: []ref.Expr{&ref.ArrLit{Elems: []ref.Expr{&ref.ArgRef{Kind: "\\N", N: 8}, &ref.ArgRef{Kind: "\\N", N: 9}, &ref.ArgRef{Kind: "\\N", N: na}, &ref.ArgRef{Kind: "\\N", N: 1 + g.rng.Intn(na)}}}}}
		prog = append(prog, &ref.Assign{Name: "fm", E: fm})
		prog = append(prog, &ref.Print{E: &ref.Call{Callee: &ref.Var{Name: "fm"}, Args: many}})
	}
	for i := 0; i < nst; i++ {
		r := g.rng.Intn(13)
		if focus && g.rng.Intn(2) == 0 {
			r = 6 + g.rng.Intn(2)
			if g.rng.Intn(5) == 0 {
				cn := fmt.Sprintf("cl%d", len(closures))
				mk(cn)
				prog = append(prog, &ref.Print{E: &ref.Call{Callee: &ref.Var{Name: cn}}})
				continue
			}
		}
		switch {
		case r < 3:
			name := g.pick(c03funcs)
			f := g.fn(1, ints, funcs, false)
			prog = append(prog, &ref.Assign{Name: name, E: f})
			funcs = appendUniq(funcs, name)
			funcParams[name] = len(f.Params)
		case r < 6 && len(funcs) > 0:
			name := g.pick(funcs)
			call := &ref.Call{Callee: &ref.Var{Name: name}, Args: g.argList(ints, funcParams[name], false)}
			if g.rng.Intn(6) == 0 {
				call.Trail = &ref.Func{Params: []string{"pz"}, Body: []ref.Expr{&ref.ArrLit{Elems: []ref.Expr{&ref.Var{Name: "pz"}, g.atom(ints)}}}}
				g.features["trailing-literal"] = true
			}
			if g.rng.Intn(3) == 0 {
				// keep the result: it may be a closure called later, after the captured scope changed
				cn := fmt.Sprintf("cl%d", len(closures))
				prog = append(prog, &ref.Assign{Name: cn, E: call})
				closures = append(closures, cn)
			} else {
				prog = append(prog, &ref.Print{E: call})
			}
		case r == 6 && len(ints) > 0:
			// reassignment in the defining scope after closures were created: they see it
			n := g.pick(ints)
			prog = append(prog, &ref.Assign{Name: n, E: &ref.Int{V: 100 + g.rng.Intn(90)}})
			g.features["reassign-after-capture"] = true
		case r == 7 && len(closures) > 0:
			prog = append(prog, &ref.Print{E: &ref.Call{Callee: &ref.Var{Name: g.pick(closures)}, Args: g.argList(ints, 1, false)}})
			g.features["call-returned-closure"] = true
		case r == 8:
			// object with a method, a plain function property and a value
			m := g.fn(1, ints, funcs, true)
			pf := g.fn(1, ints, funcs, false)
			prog = append(prog, &ref.Assign{Name: "ob1", E: &ref.ObjLit{Keys: []string{"mf", "pg", "pv"}, Vals: []ref.Expr{m, pf, &ref.Int{V: 42}}}})
			haveObj = true
			funcParams["ob1.mf"], funcParams["ob1.pg"] = len(m.Params), len(pf.Params)
		case r == 9 && haveObj:
			prop := []string{"mf", "pg", "pv"}[g.rng.Intn(3)]
			np := funcParams["ob1."+prop]
			if prop == "pg" && np > 0 {
				np-- // the receiver takes the first parameter
			}
			prog = append(prog, &ref.Print{E: &ref.PropCall{Recv: &ref.Var{Name: "ob1"}, Prop: prop, Args: g.argList(ints, np, false)}})
			g.features["prop-call-"+prop] = true
		case r == 10 && haveObj:
			prop := []string{"mf", "pg"}[g.rng.Intn(2)]
			args := append([]ref.Arg{{Kind: "pos", E: &ref.Var{Name: "ob1"}}}, g.argList(ints, 1, false)...)
			prog = append(prog, &ref.Print{E: &ref.IndexCall{Recv: &ref.Var{Name: "ob1"}, Prop: prop, Args: args}})
			g.features["index-call"] = true
		case r == 11:
			f := g.fn(2, ints, funcs, false)
			var recv ref.Expr = &ref.ArrLit{Elems: []ref.Expr{g.atom(ints), g.atom(ints)}}
			if g.rng.Intn(3) == 0 {
				recv = g.atom(ints)
			}
			prog = append(prog, &ref.Print{E: &ref.LitCall{Recv: recv, Fn: f}})
			g.features["literal-call"] = true
		case r == 12 && len(funcs) > 0:
			var recv ref.Expr = &ref.ArrLit{Elems: []ref.Expr{g.atom(ints), g.atom(ints)}}
			prog = append(prog, &ref.Print{E: &ref.VarCall{Recv: recv, Var: g.pick(funcs)}})
			g.features["var-call"] = true
		default:
			if len(ints) > 0 {
				prog = append(prog, &ref.Print{E: &ref.ArrLit{Elems: []ref.Expr{g.atom(ints), g.atom(ints)}}})
			}
		}
	}
	// final reads: enclosing scope unchanged by any call
	var finals []ref.Expr
	for _, n := range ints {
		finals = append(finals, &ref.Var{Name: n})
	}
	prog = append(prog, &ref.ArrLit{Elems: finals})
	return prog
}

func init() {
	fw.Register(&fw.Prop{
		ID:    "C03",
		Level: "exploration",
		Rule: "random programs from a function profile: nested func and method literals (depth ≤ 3) defined in one scope and called from another; parameters named like outer variables; assignments and compound assignments inside bodies followed by reads outside; closures returned, stored and invoked after the captured scope was reassigned; calls with fewer/more arguments than parameters; keyword arguments before/between/after positionals; defaults; *arr / **obj; bodies reading \\, \\N, \\0, \\name, \\_; property calls (method, plain function property, non-callable), o['m](o, …), anonymous chains, literal and variable calls with array receivers, trailing func literals. " +
			"Every interesting read is printed; stdout lines and the final value are compared with an independent reference evaluator over the generator's AST (package ref). distinct = distinct (feature set, statement count) classes among decided programs; non-trivial = at least one name is shadowed, captured across a call, or bound by a non-trivial argument form" +
			" Added: focus mode (a factory of depth 2–3 whose kept closures are called, the captured variables reassigned, called again, new closures made; keyword defaults written over the factory's parameter), listings of the keyword arguments received (`\\_.keys/values/items`), closed-form iterator-literal scoping programs (new / chain / copy called from scopes with same-named variables). Sixth round: iterator steps are fresh frames (locals of a step are not read by the next one; \\N, \\name, parameters and \\_ after a recur with fewer arguments).",
		Assumptions: []string{
			"the reference evaluator transcribes the statement: closure = defining frame by reference, each call gets a private frame, assignment writes the innermost frame, lookup walks outwards, positional then keyword binding, receiver first",
			"it declines (inconclusive) where the documents are silent: arithmetic on nil, \\N beyond the arguments received, \\0 with nil padding, \\name for a keyword not received, duplicate keywords through **, printing functions",
		},
		Floor: func(m *fw.Merged) string {
			if m.Counters["decided"] < 1500 {
				return fmt.Sprintf("decided=%d declined=%d", m.Counters["decided"], m.Counters["declined"])
			}
			return ""
		},
		Run: runC03,
	})
}

// c03iterScoping: iterator literals are function-like: their bodies (incl. after recur and in copies) see the
// scope where the literal was written, whoever calls new / next / a chain. Closed-form expectation.
func c03iterScoping(rng *rand.Rand) (src, want string) {
	S, T, U := 1+rng.Intn(4), 5+rng.Intn(4), 100+rng.Intn(50)
	lim := 6 + rng.Intn(6)
	switch rng.Intn(4) {
	case 0:
		// every step started by recur is a fresh frame: a local assigned by one step is not what the next step reads
		// through the same name (it reads the variable of the scope where the literal was written)
		var steps []string
		for i := 0; i < lim; i += S {
			steps = append(steps, fmt.Sprintf("[%d, %d, %d]", U, i, U+1))
		}
		names := [][2]string{{"lim", "other"}, {"acc", "base"}, {"x", "y"}}[rng.Intn(3)]
		a, b := names[0], names[1]
		body := fmt.Sprintf("seen := %s; %s := n; also := %s; %s += n; yield [seen, n, also] if n < %d; recur(n + %d)", a, a, b, b, lim, S)
		forms := []string{
			"g := <{|n| " + body + "}>\nr := g.new(0).A",
			"g := <{|n| " + body + "}>\nr := {|" + a + "| g.new(0).A}(7)",
			"mk := {|| <{|n| " + body + "}>}\nr := mk().new(0)@{|e| e}",
			"g := <{|n| " + body + "}>\nit := g.new(0)\nr := []\n" + strings.Repeat("r := [*r, it.next]\n", len(steps)),
		}
		src = fmt.Sprintf("%s := %d\n%s := %d\n%s\n[r, %s, %s]", a, U, b, U+1, forms[rng.Intn(len(forms))], a, b)
		want = fmt.Sprintf("[[%s], %d, %d]", strings.Join(steps, ", "), U, U+1)
		return
	case 1:
		// \N, \name and parameters reflect only the arguments given to that recur
		extra := rng.Intn(90)
		forms := []struct{ src, want string }{
			{fmt.Sprintf("it := <{yield [\\1, \\2, \\k] if \\1 < 5; recur(\\1 + 1)}>.new(0, %d, k: %d)\n[it.next, it.try.{|i| i.next}.or('failed)]", extra, extra+1), fmt.Sprintf("[[0, %d, %d], \"failed\"]", extra, extra+1)},
			{fmt.Sprintf("it := <{|a, b, k: 'dflt| yield [a, b, k] if a < 3; recur(a + 1)}>.new(0, %d, k: %d)\n[it.next, it.next, it.next]", extra, extra+1), fmt.Sprintf("[[0, %d, %d], [1, nil, \"dflt\"], [2, nil, \"dflt\"]]", extra, extra+1)},
			{fmt.Sprintf("it := <{|a, b| yield [a, b, \\_.keys] if a < 3; recur(a + 1, k: b)}>.new(0, %d, %d, z: 1)\n[it.next, it.next]", extra, extra+1), fmt.Sprintf("[[0, %d, [\"z\"]], [1, nil, [\"k\"]]]", extra)},
		}
		f := forms[rng.Intn(len(forms))]
		return f.src, f.want
	}
	var seq []string
	for i := 0; i < lim; i += S {
		seq = append(seq, fmt.Sprint(i))
	}
	exp := "[" + strings.Join(seq, ", ") + "]"
	callers := []string{
		"user := {|step| g.new(0).A}\nr := user(%d)",
		"o := {step: %d, run: m{|step| g.new(0).A}}\nr := o.run(o.step)",
		"r := [%d]@{|step| g.new(0).A}[0]",
		"user := {|step| it := g.new(0); {|step| it.A}(step + 1)}\nr := user(%d)",
		"user := {|step, lim| g.new(0)@{|x| x}}\nr := user(%d, 2)",
		"user := {|step| c := g.new(0); c.next; c.next; g.new(0).A}\nr := user(%d)",
		"user := {|step| g.new(0)$([]){|acc, x| [*acc, x]}}\nr := user(%d)",
	}
	c := fmt.Sprintf(callers[rng.Intn(len(callers))], T)
	factories := []string{
		"mk := {|step, lim| <{|i| yield i if i < lim; recur(i + step)}>}\ng := mk(%d, %d)",
		"mk := {|step| {|lim| <{|i| yield i if i < lim; recur(i + step)}>}}\ng := mk(%d)(%d)",
		"mk := {|step, lim| inner := <{|i| yield i if i < lim; recur(i + step)}>; inner}\ng := mk(%d, %d)",
	}
	f := fmt.Sprintf(factories[rng.Intn(len(factories))], S, lim)
	src = fmt.Sprintf("step := %d\nlim := 3\n%s\n%s\n[g.new(0).A, r, step, lim]", U, f, c)
	want = fmt.Sprintf("[%s, %s, %d, 3]", exp, exp, U)
	return
}

func runC03(w *fw.W) {
	var ip *interp.Interp
	// iterator-literal scoping (closed form)
	for k := 0; k < w.Pick(8, 100); k++ {
		if !w.Take() {
			continue
		}
		if ip == nil {
			ip = interp.New()
		}
		rng := w.Rand()
		w.Begin(fmt.Sprintf("iterator scoping batch %d", k), map[string]any{"batch": k})
		var vs violSet
		n := 0
		for i := 0; i < 40; i++ {
			src, want := c03iterScoping(rng)
			w.Note(src)
			o := ip.Run(src, interp.Options{})
			n++
			if !o.OK() || o.Inspect != want {
				vs.add("C03|iterator-literal-scoping", fmt.Sprintf("program:\n%s\n→ %s, lexical scoping gives %s %s", src, o.Outcome(), want, firstLine(o.ParseErr)), src)
			}
		}
		r := fw.Result{Verdict: fw.Held, Evals: n, Counters: map[string]int{"iterator_scoping_programs": n, "decided": n}, DKeys: []string{fmt.Sprintf("iter-scoping|%d", k)}}
		vs.finish(&r)
		w.End(r)
	}
	// the REPL entry point: a program typed line by line is the same program (functions written on one line see later
	// reassignments made on other lines; failing lines in between change nothing)
	if w.Take() {
		w.Begin("REPL: closures across lines", nil)
		var vs violSet
		n := 0
		rng := w.Rand()
		for i := 0; i < 30; i++ {
			a, b, c := rng.Intn(90)+1, rng.Intn(90)+100, rng.Intn(90)+200
			scen := []struct {
				lines []string
				want  string
			}{
				{[]string{fmt.Sprintf("x := %d", a), "f := {|| x}", fmt.Sprintf("x := %d", b), "f()"}, fmt.Sprint(b)},
				{[]string{fmt.Sprintf("x := %d", a), "f := {|| x}", "nosuchname", fmt.Sprintf("x := %d", b), "1 / 0", "f()"}, fmt.Sprint(b)},
				{[]string{fmt.Sprintf("x := %d", a), "mk := {|q| {|| [q, x]}}", fmt.Sprintf("g := mk(%d)", c), fmt.Sprintf("x := %d", b), "g()"}, fmt.Sprintf("[%d, %d]", c, b)},
				{[]string{fmt.Sprintf("x := %d", a), "f := {|y| x += y; x}", fmt.Sprintf("f(%d)", b), "x"}, fmt.Sprint(a)},
				{[]string{fmt.Sprintf("o := {m: m{|| lim}, v: %d}", a), fmt.Sprintf("lim := %d", b), "o.m", fmt.Sprintf("lim := %d", c), "o.m"}, fmt.Sprint(c)},
				{[]string{fmt.Sprintf("it := <{|i| yield i + base; recur(i + 1)}>.new(0)"), fmt.Sprintf("base := %d", a), "it.next", fmt.Sprintf("base := %d", b), "it.next"}, fmt.Sprint(b + 1)},
			}[i%6]
			var out bytes.Buffer
			runscript.StartREPL("", strings.NewReader(strings.Join(scen.lines, "\n")+"\n"), &out)
			n++
			last := ""
			for _, ln := range strings.Split(strings.TrimSpace(out.String()), "\n") {
				if strings.HasPrefix(ln, ">>> ") && strings.TrimSpace(strings.TrimPrefix(ln, ">>> ")) != "" {
					last = strings.TrimSpace(strings.TrimPrefix(ln, ">>> "))
				}
			}
			if last != scen.want {
				vs.add("C03|repl|closure-across-lines", fmt.Sprintf("REPL lines %q: the last line answered %q, lexical scoping gives %s", scen.lines, last, scen.want), scen.lines)
			}
		}
		r := fw.Result{Verdict: fw.Held, Evals: n, Counters: map[string]int{"repl_scoping_sessions": n, "decided": n}, DKeys: []string{"repl-scoping"}}
		vs.finish(&r)
		w.End(r)
	}
	nb := w.Pick(400, 8000)
	for b := 0; b < nb; b++ {
		if !w.Take() {
			continue
		}
		if ip == nil {
			ip = interp.New()
		}
		rng := w.Rand()
		w.Begin(fmt.Sprintf("batch %d", b), map[string]any{"batch": b})
		var vs violSet
		dk := map[string]struct{}{}
		decided, declined := 0, 0
		reasons := map[string]int{}
		var sample string
		for i := 0; i < 50; i++ {
			g := &c03gen{rng: rng, features: map[string]bool{}}
			prog := g.program()
			var lines []string
			for _, s := range prog {
				lines = append(lines, s.Src())
			}
			src := strings.Join(lines, "\n")
			w.Note(src)
			m := &ref.Machine{}
			rv, rerr := m.Run(prog)
			if d, ok := rerr.(*ref.Decline); ok {
				declined++
				reasons["declined: "+d.Why]++
				continue
			}
			wantOut := strings.Join(m.Out, "\n")
			if wantOut != "" {
				wantOut += "\n"
			}
			o := ip.Run(src, interp.Options{})
			o.Stdout = ref.NormalizeFuncs(o.Stdout)
			o.Inspect = ref.NormalizeFuncs(o.Inspect)
			var feats []string
			for f := range g.features {
				feats = append(feats, f)
			}
			sortStrings(feats)
			key := "C03|" + strings.Join(feats, "+")
			if len(key) > 120 {
				key = key[:120]
			}
			desc := "program:\n" + src
			switch {
			case o.Panic != "" || o.ParseErr != "" || o.Cutoff != "":
				vs.add("C03|abnormal|"+firstWord(o.Outcome()), desc+"\n→ "+o.Outcome()+" "+firstLine(o.ParseErr), src)
				continue
			}
			// stdout up to the reference's point of failure must agree
			var wantIns, wantErrKind string
			if e, ok := rerr.(*ref.Err); ok {
				wantErrKind = e.Kind
			} else if rerr == nil {
				s, ierr := ref.Inspect(rv)
				if ierr != nil {
					declined++
					reasons["declined: final value is a function"]++
					continue
				}
				wantIns = s
			}
			decided++
			switch {
			case o.Stdout != wantOut:
				vs.add(c03diffKey(g.features, "stdout"), fmt.Sprintf("%s\nprinted:\n%s\nreference evaluator:\n%s", desc, firstDiffLines(o.Stdout, wantOut), ""), src)
			case wantErrKind != "" && (o.Err == nil || o.ErrKind != wantErrKind):
				vs.add(c03diffKey(g.features, "outcome"), fmt.Sprintf("%s\nended with %s, reference evaluator: %s", desc, o.Outcome(), wantErrKind), src)
			case wantErrKind == "" && (!o.OK() || o.Inspect != wantIns):
				vs.add(c03diffKey(g.features, "outcome"), fmt.Sprintf("%s\nfinal value %s, reference evaluator: %s", desc, o.Outcome(), wantIns), src)
			default:
				if len(feats) > 0 {
					dk[fmt.Sprintf("%s|n=%d", strings.Join(feats, "+"), len(prog))] = struct{}{}
				}
				if sample == "" && len(feats) >= 5 && len(m.Out) >= 3 {
					sample = src + "\n# stdout: " + strings.Join(m.Out, " | ")
				}
			}
		}
		r := fw.Result{Verdict: fw.Held, Evals: decided + declined, Counters: map[string]int{"decided": decided, "declined": declined}}
		for k, v := range reasons {
			r.Counters[k] = v
		}
		for k := range dk {
			r.DKeys = append(r.DKeys, k)
		}
		if sample != "" {
			r.Sample = sample
		}
		vs.finish(&r)
		w.End(r)
	}
}

func c03diffKey(features map[string]bool, what string) string {
	// key by the most specific feature present, so that one defect is one finding
	for _, f := range []string{"arg-ref", "anon-chain", "star", "dstar", "kw-interleaved", "kw-default", "trailing-literal", "index-call", "literal-call", "var-call",
		"prop-call-mf", "prop-call-pg", "prop-call-pv", "returns-closure", "call-returned-closure", "nested-closure", "compound-in-body", "assign-in-body", "reassign-after-capture", "param-shadows-outer", "fewer-args", "more-args"} {
		if features[f] {
			return "C03|" + what + "-differs|" + f
		}
	}
	return "C03|" + what + "-differs|plain"
}

func firstWord(s string) string {
	if i := strings.IndexAny(s, ": "); i > 0 {
		return s[:i]
	}
	return s
}

func firstDiffLines(got, want string) string {
	g, w := strings.Split(got, "\n"), strings.Split(want, "\n")
	for i := 0; i < len(g) || i < len(w); i++ {
		var a, b string
		if i < len(g) {
			a = g[i]
		}
		if i < len(w) {
			b = w[i]
		}
		if a != b {
			return fmt.Sprintf("line %d: interpreter %q, reference %q\n(interpreter stdout: %q)", i+1, a, b, truncateMid(got, 300))
		}
	}
	return "(same)"
}

func sortStrings(s []string) {
	for i := 1; i < len(s); i++ {
		for j := i; j > 0 && s[j] < s[j-1]; j-- {
			s[j], s[j-1] = s[j-1], s[j]
		}
	}
}
