package props

import (
	"fmt"
	"strings"

	"verif/fw"
	"verif/interp"
)

// C04 — chain contexts apply their documented per-element rule in all three call forms.
// Oracle: (1) the per-element model of the statement; (2) equality of the three call forms.

const c04prelude = `Acc := {|l| {l: l, g: m{|x| v := x.f; Acc([*.l, v]) if v != nil}, g2: m{|x, t| v := x.f2(t); Acc([*.l, v]) if v != nil}}}
fv2 := {|x| x.f2("t")}
gv2 := {|acc, x| acc.g2(x, "t")}
fv := {|x| x.f}
gv := {|acc, x| acc.g(x)}
unacc := {|r| r.l if r != nil}
nn := Nil.bear({reason: "none"}).new
kvOf := {|x| ["k#{x.id}", x.f]}
kvv := {|x| x.kv}
wrappedErr := 1.try./(0).err
kvOf2 := {|x| [[x.id % 2], x.f]}
`

// behaviours of the callee at one element
const (
	bVal   = "value"
	bNil   = "nil"
	bRaise = "raise"
	bNone  = "nil-element"         // the element itself is nil
	bWrap  = "wrapped-error-value" // the callee returns a caught error as a plain value (not nil, not raised)
	bStop  = "raise-StopIterErr"   // the callee raises an error of the kind iterators use to say "exhausted"
)

const c04wrapIns = "[ZeroDivisionErr: cannot be divided by 0]"

// c04nilAlt: spell nil elements at alternating positions as a nil descendant (`Nil.bear({…}).new`, which
// is nil for the language: == nil, nil? true) instead of the literal.
var c04nilAlt = 0

func c04elem(k int, beh string) string {
	if beh == bNone && (k+c04nilAlt)%2 == 1 {
		return "nn"
	}
	switch beh {
	case bVal:
		if (k+c04nilAlt)%2 == 1 {
			// an element that answers unknown names through `_missing` is an element like any other
			return fmt.Sprintf(`{id: %d, f: m{"C%d".p; %d}, f2: m{|t| "C%d".p; [%d, t]}, kv: m{"C%d".p; ["k%d", %d]}, _missing: m{|name| "MISSING-CALLED".p; name}}`, k, k, 100+k, k, 100+k, k, k, 100+k)
		}
		return fmt.Sprintf(`{id: %d, f: m{"C%d".p; %d}, f2: m{|t| "C%d".p; [%d, t]}, kv: m{"C%d".p; ["k%d", %d]}}`, k, k, 100+k, k, 100+k, k, k, 100+k)
	case bNil:
		return fmt.Sprintf(`{id: %d, f: m{"C%d".p; nil}, f2: m{|t| "C%d".p; nil}, kv: m{"C%d".p; nil}}`, k, k, k, k)
	case bRaise:
		// the kind of error raised varies with the position (a raise is a raise whatever its kind)
		switch k % 3 {
		case 1:
			return fmt.Sprintf(`{id: %d, f: m{"C%d".p; noSuchName%d}, f2: m{|t| "C%d".p; noSuchName%d}}`, k, k, k, k, k)
		case 2:
			return fmt.Sprintf(`{id: %d, f: m{"C%d".p; 1 / 0}, f2: m{|t| "C%d".p; 1 / 0}}`, k, k, k)
		}
		return fmt.Sprintf(`{id: %d, f: m{"C%d".p; raise ValueErr.new("m%d")}, f2: m{|t| "C%d".p; raise ValueErr.new("m%d")}}`, k, k, k, k, k)
	case bStop:
		return fmt.Sprintf(`{id: %d, f: m{"C%d".p; raise StopIterErr.new("m%d")}, f2: m{|t| "C%d".p; raise StopIterErr.new("m%d")}}`, k, k, k, k, k)
	case bWrap:
		return fmt.Sprintf(`{id: %d, f: m{"C%d".p; wrappedErr}, f2: m{|t| "C%d".p; [wrappedErr, t]}}`, k, k, k)
	}
	return "nil"
}

// c04raised is the kind and message of the error element k raises under behaviour b.
func c04raised(k int, b string) [2]string {
	if b == bStop {
		return [2]string{"StopIterErr", fmt.Sprintf("m%d", k)}
	}
	switch k % 3 {
	case 1:
		return [2]string{"NameErr", fmt.Sprintf("name `noSuchName%d` is not defined", k)}
	case 2:
		return [2]string{"ZeroDivisionErr", "cannot be divided by 0"}
	}
	return [2]string{"ValueErr", fmt.Sprintf("m%d", k)}
}

type c04out struct {
	isErr    bool
	kind     string
	msg      string
	parts    []string // result parts (list) — values, "nil", or "E<k>" placeholders for element objects
	scalar   string   // scalar / reduce result: a part, or "" when parts is used
	isList   bool
	calls    []string
	accParts []string
	accNil   bool
}

// model of a list chain over elements with behaviours behs.
func c04listModel(add string, behs []string) c04out {
	o := c04out{isList: true}
	for k, b := range behs {
		if b == bNone {
			switch add {
			case "&":
				continue // call skipped, nil dropped by the list chain
			case "~":
				// substituted value is again nil: not generated
				return c04out{isErr: true, kind: "SKIP"}
			default:
				return c04out{isErr: true, kind: "NoPropErr", msg: "property `f` is not defined.", calls: o.calls}
			}
		}
		o.calls = append(o.calls, fmt.Sprintf("C%d", k))
		switch b {
		case bVal:
			o.parts = append(o.parts, fmt.Sprint(100+k))
		case bWrap:
			o.parts = append(o.parts, "W")
		case bNil:
			switch add {
			case "=":
				o.parts = append(o.parts, "nil")
			case "~":
				o.parts = append(o.parts, fmt.Sprintf("E%d", k))
			}
		case bRaise, bStop:
			if add == "~" {
				o.parts = append(o.parts, fmt.Sprintf("E%d", k))
				continue
			}
			return c04out{isErr: true, kind: c04raised(k, b)[0], msg: c04raised(k, b)[1], calls: o.calls}
		}
	}
	return o
}

// model of a reduce chain from Acc([]) ; result rendered as the accumulated list (or nil)
func c04reduceModel(add string, behs []string) c04out {
	o := c04out{}
	acc := []string{}
	accNil := false
	for k, b := range behs {
		if accNil {
			// nil.g(x): the plain forms fail with NoPropErr
			return c04out{isErr: true, kind: "NoPropErr", msg: "property `g` is not defined.", calls: o.calls}
		}
		if b == bNone {
			// x.f on a nil element fails inside g
			if add == "~" {
				continue
			}
			return c04out{isErr: true, kind: "NoPropErr", msg: "property `f` is not defined.", calls: o.calls}
		}
		o.calls = append(o.calls, fmt.Sprintf("C%d", k))
		switch b {
		case bVal:
			acc = append(acc, fmt.Sprint(100+k))
		case bWrap:
			acc = append(acc, "W")
		case bNil:
			if add == "~" {
				continue // the accumulator is substituted
			}
			accNil = true
		case bRaise, bStop:
			if add == "~" {
				continue
			}
			return c04out{isErr: true, kind: c04raised(k, b)[0], msg: c04raised(k, b)[1], calls: o.calls}
		}
	}
	o.accParts, o.accNil = acc, accNil
	return o
}

func init() {
	fw.Register(&fw.Prop{
		ID:    "C04",
		Level: "exploration",
		Rule: "the matrix {., @, $} × {none, &, ~, =} × {property call, literal call, variable call} over controlled receivers (arrays and iterator literals of 0–3 user objects, or nil at chosen positions) whose callee behaviour per element is table-driven (value, nil, raise) and identical for the three forms; behaviour vectors are exhaustive over {value, nil, raise, nil-element}ⁿ for n ≤ 3 (n ≤ 4 in thorough); list chains also with chain arguments [], {} and %{} ; plus built-in receivers (int, str, range, obj, map) under form equality. " +
			"Oracle: (1) the per-element model of the statement (results in order, @ drops nil, =@ keeps it, ~ substitutes the call's receiver for a nil or raised result, & skips the call for a nil receiver, $ folds left from the chain argument) incl. which callees were called (markers); (2) the three call forms give the same result in every cell except &$. " +
			"distinct = distinct (context, form, receiver kind, behaviour vector) cells judged; non-trivial = the vector contains ≥1 nil/raise/nil-element" +
			" Added: iterator variables already used by earlier chains, nil descendants as nil elements, non-empty chain-argument containers with colliding keys, and every list/reduce cell also written over two lines with `|`. Sixth round: property-form `@(arg)prop` digests also when nothing was collected; the error a raising element raises varies with its position (ValueErr, NameErr, ZeroDivisionErr).",
		Assumptions: []string{
			"combinations the statement leaves open are not generated: a nil element under ~@ (the substituted value is again nil) and the lonely reduce chain with nil receivers (its notion of receiver differs between the forms)",
			"raises under non-thoughtful contexts are only checked for delivery of the first error (propagation is C07's subject)",
		},
		Exhaustive: func(string) bool { return true },
		Floor: func(m *fw.Merged) string {
			if m.Counters["cells_judged"] < 2500 {
				return fmt.Sprintf("cells_judged=%d", m.Counters["cells_judged"])
			}
			return ""
		},
		Run: runC04,
	})
}

func runC04(w *fw.W) {
	var ip *interp.Interp
	maxN := w.Pick(3, 5)
	var vectors [][]string
	var rec func(cur []string, n int)
	rec = func(cur []string, n int) {
		if len(cur) == n {
			vectors = append(vectors, append([]string{}, cur...))
			return
		}
		for _, b := range []string{bVal, bNil, bRaise, bNone, bWrap, bStop} {
			rec(append(cur, b), n)
		}
	}
	for n := 0; n <= maxN; n++ {
		rec(nil, n)
	}
	adds := []string{"", "&", "~", "="}
	// itervar: the receiver is a variable holding an iterator that an earlier chain already went through
	// (a chain works on the elements the receiver's iterator yields, it does not consume the receiver)
	recvKinds := []string{"arr", "iter", "itervar"}
	chunk := 12
	for _, rk := range recvKinds {
		for start := 0; start < len(vectors); start += chunk {
			if !w.Take() {
				continue
			}
			if ip == nil {
				ip = interp.New()
			}
			end := start + chunk
			if end > len(vectors) {
				end = len(vectors)
			}
			w.Begin(fmt.Sprintf("controlled %s vectors %d-%d", rk, start, end), map[string]any{"receiver": rk, "from": start, "to": end})
			var vs violSet
			var dks []string
			cells := 0
			var sample string
			for vi, behs := range vectors[start:end] {
				c04nilAlt = vi
				// elements and their Inspect strings
				setup := c04prelude
				var names []string
				for k, b := range behs {
					setup += fmt.Sprintf("e%d := %s\n", k, c04elem(k, b))
					names = append(names, fmt.Sprintf("e%d", k))
				}
				recv := "[" + strings.Join(names, ", ") + "]"
				if rk == "iter" {
					setup += "els := " + recv + "\n"
					recv = fmt.Sprintf("<{|i| yield els[i] if i < %d; recur(i + 1)}>.new(0)", len(behs))
				}
				if rk == "itervar" {
					setup += "els := " + recv + "\n"
					setup += fmt.Sprintf("it := <{|i| yield els[i] if i < %d; recur(i + 1)}>.new(0)\nwarm := [it@{|x| 1}, it$(0){|acc, x| acc + 1}]\n", len(behs))
					recv = "it"
				}
				einsp := map[string]string{}
				for k := range behs {
					o := ip.Run(setup+fmt.Sprintf("e%d", k), interp.Options{})
					einsp[fmt.Sprintf("E%d", k)] = o.Inspect
				}
				einsp["W"] = c04wrapIns
				render := func(parts []string) string {
					var out []string
					for _, p := range parts {
						if v, ok := einsp[p]; ok {
							out = append(out, v)
						} else {
							out = append(out, p)
						}
					}
					return "[" + strings.Join(out, ", ") + "]"
				}
				nontrivial := false
				for _, b := range behs {
					if b != bVal {
						nontrivial = true
					}
				}
				judge := func(ctx, form, src string, model c04out, wantIns string) *interp.Obs {
					w.Note(src)
					o := ip.Run(setup+src, interp.Options{})
					cells++
					key := fmt.Sprintf("C04|%s|%s|%s", ctx, form, rk)
					desc := fmt.Sprintf("behaviours %v, receiver %s: `%s`", behs, rk, src)
					wantCalls := strings.Join(model.calls, "\n")
					if wantCalls != "" {
						wantCalls += "\n"
					}
					switch {
					case o.Panic != "" || o.ParseErr != "" || o.Cutoff != "":
						vs.add(key+"|abnormal", desc+" → "+o.Outcome()+" "+firstLine(o.ParseErr), src)
					case model.isErr && (o.Err == nil || o.ErrKind != model.kind || (model.msg != "" && o.ErrMsg != model.msg)):
						vs.add(key+"|wrong-result", fmt.Sprintf("%s → %s, model: error %s: %s", desc, o.Outcome(), model.kind, model.msg), src)
					case !model.isErr && (!o.OK() || o.Inspect != wantIns):
						vs.add(key+"|wrong-result", fmt.Sprintf("%s → %s, model: %s", desc, truncateMid(o.Outcome(), 300), truncateMid(wantIns, 300)), src)
					case o.Stdout != wantCalls:
						vs.add(key+"|wrong-callees-called", fmt.Sprintf("%s called %q, model %q", desc, o.Stdout, wantCalls), src)
					default:
						if nontrivial {
							dks = append(dks, fmt.Sprintf("%s|%s|%s|%s", ctx, form, rk, strings.Join(behs, ",")))
						}
					}
					// the same chain continued on the next line with `|` is the same chain
					if i := strings.Index(src, recv); i >= 0 && o.ParseErr == "" {
						msrc := src[:i+len(recv)] + "\n  |" + src[i+len(recv):]
						mo := ip.Run(setup+msrc, interp.Options{})
						cells++
						if mo.Outcome() != o.Outcome() || mo.Stdout != o.Stdout {
							vs.add(key+"|multi-line-spelling-differs", fmt.Sprintf("%s → %s, but written over two lines with `|` → %s %s", desc, truncateMid(o.Outcome(), 200), truncateMid(mo.Outcome(), 200), firstLine(mo.ParseErr)), msrc)
						}
					}
					return o
				}
				for _, add := range adds {
					// ---- list chains
					lm := c04listModel(add, behs)
					if lm.kind == "SKIP" {
						// a nil element under ~@: the statement leaves the value open, but the three forms must still agree
						var outs []*interp.Obs
						for _, src := range []string{recv + add + "@f", recv + add + "@{|x| x.f}", recv + add + "@^fv"} {
							w.Note(src)
							outs = append(outs, ip.Run(setup+src, interp.Options{}))
							cells++
						}
						c04formEq(&vs, add+"@", rk, behs, outs)
					}
					if lm.kind != "SKIP" {
						// the same chain with an explicit call argument: `xs@f2("t")` ≡ `xs@{|x| x.f2("t")}` ≡ `xs@^fv2`
						parts2 := make([]string, len(lm.parts))
						for i, p := range lm.parts {
							parts2[i] = p
							if len(p) == 3 && p[0] == '1' {
								parts2[i] = "[" + p + `, "t"]`
							}
							if p == "W" {
								parts2[i] = "[" + c04wrapIns + `, "t"]`
							}
						}
						lm2 := lm
						if lm2.isErr && lm2.msg == "property `f` is not defined." {
							lm2.msg = "property `f2` is not defined."
						}
						var outs2 []*interp.Obs
						for _, f := range []struct{ name, src string }{{"prop+arg", recv + add + `@f2("t")`}, {"literal+arg", recv + add + `@{|x| x.f2("t")}`}, {"var+arg", recv + add + "@^fv2"}} {
							outs2 = append(outs2, judge(add+"@", f.name, f.src, lm2, render(parts2)))
						}
						c04formEq(&vs, add+"@ (with call argument)", rk, behs, outs2)
					}
					if lm.kind != "SKIP" {
						forms := map[string]string{"prop": recv + add + "@f", "literal": recv + add + "@{|x| x.f}", "var": recv + add + "@^fv"}
						var outs []*interp.Obs
						for _, f := range []string{"prop", "literal", "var"} {
							outs = append(outs, judge(add+"@", f, forms[f], lm, render(lm.parts)))
						}
						c04formEq(&vs, add+"@", rk, behs, outs)
						// chain argument: digest into the container type (values only, so results are plain)
						allVal := true
						for _, b := range behs {
							if b != bVal {
								allVal = false
							}
						}
						valOrNil := true
						for _, b := range behs {
							if b != bVal && b != bNil {
								valOrNil = false
							}
						}
						if valOrNil && add == "" {
							// the three forms digest the collected pairs alike — also when nothing was collected
							// (empty receiver, or every call answered nil): the result is then the argument itself
							var pairs, objp []string
							for k, b := range behs {
								if b == bVal {
									pairs = append(pairs, fmt.Sprintf("[\"k%d\", %d]", k, 100+k))
									objp = append(objp, fmt.Sprintf("\"k%d\": %d", k, 100+k))
								}
							}
							cm := c04out{calls: lm.calls}
							for _, f := range []struct{ form, call string }{{"prop", "kv"}, {"literal", "{|x| x.kv}"}, {"var", "^kvv"}} {
								judge("@([]) pairs", f.form, recv+`@([])`+f.call, cm, "["+strings.Join(pairs, ", ")+"]")
								judge("@({}) pairs", f.form, recv+`@({})`+f.call, cm, "{"+strings.Join(objp, ", ")+"}")
								judge("@(%{}) pairs", f.form, recv+`@(%{})`+f.call, cm, "%{"+strings.Join(objp, ", ")+"}")
								judge("@({zz: 1}) pairs", f.form, recv+`@({zz: 1})`+f.call, cm, "{"+strings.Join(append(append([]string{}, objp...), `"zz": 1`), ", ")+"}")
								judge(`@(%{"zz": 1}) pairs`, f.form, recv+`@(%{"zz": 1})`+f.call, cm, "%{"+strings.Join(append(append([]string{}, objp...), `"zz": 1`), ", ")+"}")
							}
						}
						if allVal && add == "" {
							var pairs, objp, mapp []string
							for k := range behs {
								pairs = append(pairs, fmt.Sprintf("[\"k%d\", %d]", k, 100+k))
								objp = append(objp, fmt.Sprintf("\"k%d\": %d", k, 100+k))
								mapp = append(mapp, fmt.Sprintf("\"k%d\": %d", k, 100+k))
							}
							cm := c04out{calls: lm.calls}
							judge("@([])", "literal", recv+`@([]){|x| ["k#{x.id}", x.f]}`, cm, "["+strings.Join(pairs, ", ")+"]")
							judge("@({})", "literal", recv+`@({}){|x| ["k#{x.id}", x.f]}`, cm, "{"+strings.Join(objp, ", ")+"}")
							judge("@(%{})", "literal", recv+`@(%{}){|x| ["k#{x.id}", x.f]}`, cm, "%{"+strings.Join(mapp, ", ")+"}")
							// collected pairs with equal non-scalar keys: the map keeps the first of them
							if len(behs) >= 2 {
								var firsts []string
								seenK := map[int]bool{}
								for k := range behs {
									if !seenK[k%2] {
										seenK[k%2] = true
										firsts = append(firsts, fmt.Sprintf("[%d]: %d", k%2, 100+k))
									}
								}
								for _, f := range []struct{ form, call string }{{"literal", `{|x| [[x.id % 2], x.f]}`}, {"var", "^kvOf2"}} {
									judge("@(%{}) with equal non-scalar keys", f.form, recv+`@(%{})`+f.call, cm, "%{"+strings.Join(firsts, ", ")+"}")
								}
							}
							// non-empty containers: the argument's own content comes first and, for obj/map, keeps its keys
							// (it is the initial content the results are digested into; literals are first-occurrence-wins)
							objp2 := append([]string{`"k0": 999`}, objp[min(1, len(objp)):]...)
							mapp2 := append([]string{`"k0": 999`}, mapp[min(1, len(mapp)):]...)
							for _, f := range []struct{ form, call string }{{"literal", `{|x| ["k#{x.id}", x.f]}`}, {"var", "^kvOf"}} {
								judge("@([7])", f.form, recv+`@([7])`+f.call, cm, "["+strings.Join(append([]string{"7"}, pairs...), ", ")+"]")
								judge("@({k0: 999, zz: 1})", f.form, recv+`@({k0: 999, zz: 1})`+f.call, cm, "{"+strings.Join(append(objp2, `"zz": 1`), ", ")+"}")
								judge(`@(%{"k0": 999})`, f.form, recv+`@(%{"k0": 999})`+f.call, cm, "%{"+strings.Join(mapp2, ", ")+"}")
							}
						}
					}
					// ---- reduce chains
					hasNilElem := false
					for _, b := range behs {
						if b == bNone {
							hasNilElem = true
						}
					}
					hasNilResult := false
					for _, b := range behs {
						if b == bNil {
							hasNilResult = true
						}
					}
					if add == "&" && (hasNilElem || hasNilResult) {
						continue // lonely reduce with a nil receiver (element or accumulator): its notion of receiver differs between the forms
					}
					radd := add
					rm := c04reduceModel(radd, behs)
					want := "nil"
					if !rm.isErr && !rm.accNil {
						want = render(rm.accParts)
					}
					rforms := map[string]string{
						"prop":    "unacc(" + recv + add + "$(Acc([]))g)",
						"literal": "unacc(" + recv + add + "$(Acc([])){|acc, x| acc.g(x)})",
						"var":     "unacc(" + recv + add + "$(Acc([]))^gv)",
					}
					var routs []*interp.Obs
					for _, f := range []string{"prop", "literal", "var"} {
						routs = append(routs, judge(add+"$", f, rforms[f], rm, want))
					}
					if add != "&" {
						c04formEq(&vs, add+"$", rk, behs, routs)
					}
					want2 := "nil"
					if !rm.isErr && !rm.accNil {
						var ps []string
						for _, p := range rm.accParts {
							if p == "W" {
								p = c04wrapIns
							}
							ps = append(ps, "["+p+`, "t"]`)
						}
						want2 = "[" + strings.Join(ps, ", ") + "]"
					}
					rm2 := rm
					if rm2.isErr && rm2.msg == "property `g` is not defined." {
						rm2.msg = "property `g2` is not defined."
					}
					if rm2.isErr && rm2.msg == "property `f` is not defined." {
						rm2.msg = "property `f2` is not defined."
					}
					var routs2 []*interp.Obs
					for _, f := range []struct{ name, src string }{
						{"prop+arg", "unacc(" + recv + add + `$(Acc([]))g2("t"))`},
						{"literal+arg", "unacc(" + recv + add + `$(Acc([])){|acc, x| acc.g2(x, "t")})`},
						{"var+arg", "unacc(" + recv + add + "$(Acc([]))^gv2)"},
					} {
						routs2 = append(routs2, judge(add+"$", f.name, f.src, rm2, want2))
					}
					if add != "&" {
						c04formEq(&vs, add+"$ (with call argument)", rk, behs, routs2)
					}
				}
				if sample == "" && len(behs) == 3 && nontrivial {
					sample = fmt.Sprintf("behaviours %v over %s: all 8 list/reduce contexts × 3 forms agree with the model", behs, rk)
				}
			}
			r := fw.Result{Verdict: fw.Held, Evals: cells, DKeys: dks, Counters: map[string]int{"cells_judged": cells}}
			if sample != "" {
				r.Sample = sample
			}
			vs.finish(&r)
			w.End(r)
		}
	}
	// ---- scalar chains: single receiver × behaviour × additional context × form
	if w.Take() {
		if ip == nil {
			ip = interp.New()
		}
		w.Begin("scalar chains", nil)
		var vs violSet
		var dks []string
		cells := 0
		for bi, b := range []string{bVal, bNil, bRaise, bNone, bNone} {
			c04nilAlt = bi % 2
			setup := c04prelude + "e0 := " + c04elem(0, b) + "\n"
			eo := ip.Run(setup+"e0", interp.Options{})
			for _, add := range adds {
				var m c04out
				want := ""
				switch {
				case b == bNone && add == "&":
					want = "nil"
				case b == bNone && add == "~":
					want = "nil"
					m.kind = "" // nil.f fails → receiver nil substituted
				case b == bNone:
					m = c04out{isErr: true, kind: "NoPropErr", msg: "property `f` is not defined."}
				case b == bVal:
					want, m.calls = "100", []string{"C0"}
				case b == bNil && add == "~":
					want, m.calls = eo.Inspect, []string{"C0"}
				case b == bNil:
					want, m.calls = "nil", []string{"C0"}
				case b == bRaise && add == "~":
					want, m.calls = eo.Inspect, []string{"C0"}
				default:
					m = c04out{isErr: true, kind: "ValueErr", msg: "m0", calls: []string{"C0"}}
				}
				var outs []*interp.Obs
				for _, f := range []struct{ name, src string }{{"prop", "e0" + add + ".f"}, {"literal", "e0" + add + ".{|x| x.f}"}, {"var", "e0" + add + ".^fv"}} {
					o := ip.Run(setup+f.src, interp.Options{})
					cells++
					outs = append(outs, o)
					key := fmt.Sprintf("C04|%s.|%s|scalar", add, f.name)
					desc := fmt.Sprintf("behaviour %s: `%s`", b, f.src)
					wantCalls := strings.Join(m.calls, "\n")
					if wantCalls != "" {
						wantCalls += "\n"
					}
					if b == bNone && f.name != "prop" && add != "&" {
						// literal/var forms on a nil receiver call the function with nil: x.f fails inside
						// (same outcome class as the prop form: NoPropErr / substituted nil)
					}
					switch {
					case o.Panic != "" || o.ParseErr != "":
						vs.add(key+"|abnormal", desc+" → "+o.Outcome(), f.src)
					case m.isErr && (o.Err == nil || o.ErrKind != m.kind):
						vs.add(key+"|wrong-result", fmt.Sprintf("%s → %s, model: error %s", desc, o.Outcome(), m.kind), f.src)
					case !m.isErr && (!o.OK() || o.Inspect != want):
						vs.add(key+"|wrong-result", fmt.Sprintf("%s → %s, model: %s", desc, truncateMid(o.Outcome(), 200), truncateMid(want, 200)), f.src)
					case o.Stdout != wantCalls:
						vs.add(key+"|wrong-callees-called", fmt.Sprintf("%s called %q, model %q", desc, o.Stdout, wantCalls), f.src)
					default:
						dks = append(dks, fmt.Sprintf("%s.|%s|%s", add, f.name, b))
					}
				}
				c04formEq(&vs, add+".", "scalar", []string{b}, outs)
			}
		}
		r := fw.Result{Verdict: fw.Held, Evals: cells, DKeys: dks, Counters: map[string]int{"cells_judged": cells}}
		vs.finish(&r)
		w.End(r)
	}
	// ---- built-in receivers: the three forms agree (and the plain list/reduce model holds)
	builtins := []struct{ name, recv, prop, lit, varDef, want string }{
		{"int @ +", "3", "@+(10)", "@{|x| x.+(10)}", "{|x| x.+(10)}", "[11, 12, 13]"},
		{"str @ uc", `"abc"`, "@uc", "@{|x| x.uc}", "{|x| x.uc}", `["A", "B", "C"]`},
		{"range @ S", "(1:7:2)", "@S", "@{|x| x.S}", "{|x| x.S}", `["1", "3", "5"]`},
		{"obj @ len", "{a: 1, b: 2}", "@len", "@{|x| x.len}", "{|x| x.len}", "[2, 2]"},
		{"map @ sum", "%{1: 2, 3: 4}", "@sum", "@{|x| x.sum}", "{|x| x.sum}", "[3, 7]"},
		{"arr =@ at absent", "[[1], [2]]", "=@at([5])", "=@{|x| x.at([5])}", "{|x| x.at([5])}", "[nil, nil]"},
		{"arr @ at absent", "[[1], [2]]", "@at([5])", "@{|x| x.at([5])}", "{|x| x.at([5])}", "[]"},
		{"int ~@ // by zero", "3", "~@//(0)", "~@{|x| x.//(0)}", "{|x| x.//(0)}", "[1, 2, 3]"},
		{"arr &@ F with nil", "[1, 2, nil, 4]", "&@F", "&@{|x| x.F}", "{|x| x.F}", "[1.000000, 2.000000, 4.000000]"},
		{"int $ +", "4", "$(0)+", "$(0){|acc, x| acc.+(x)}", "{|acc, x| acc.+(x)}", "10"},
		{"str $ + no init", `"abc"`, "$+", "${|acc, x| acc.+(x)}", "{|acc, x| acc.+(x)}", `"abc"`},
		{"range ~$ sieve", "(3:20)", "", "~$([2]){|acc, n| [*acc, n] if acc.all? {|p| n % p}}", "{|acc, n| [*acc, n] if acc.all? {|p| n % p}}", "[2, 3, 5, 7, 11, 13, 17, 19]"},
		{"arr ~$ keeps acc on nil", "[1, 2, 3]", "", "~$(0){|a, x| nil if x == 2 else a + x}", "{|a, x| nil if x == 2 else a + x}", "4"},
		{"nil &. prop", "nil", "&.capital", "&.{|x| x.capital}", "{|x| x.capital}", "nil"},
		{"int ~. // by zero", "6", "~.//(0)", "~.{|x| x.//(0)}", "{|x| x.//(0)}", "6"},
	}
	for _, b := range builtins {
		if !w.Take() {
			continue
		}
		if ip == nil {
			ip = interp.New()
		}
		w.Begin("built-in "+b.name, map[string]any{"recv": b.recv})
		var vs violSet
		cells := 0
		ch := b.lit[:strings.IndexAny(b.lit, "{(")]
		if i := strings.Index(b.lit, "{"); i >= 0 {
			ch = b.lit[:i]
		}
		srcs := []struct{ form, src string }{{"literal", b.recv + b.lit}, {"var", "bv := " + b.varDef + "\n" + b.recv + ch + "^bv"}}
		if b.prop != "" {
			srcs = append(srcs, struct{ form, src string }{"prop", b.recv + b.prop})
		}
		for _, s := range srcs {
			o := ip.Run(s.src, interp.Options{})
			cells++
			if !o.OK() || o.Inspect != b.want {
				vs.add("C04|builtin|"+b.name+"|"+s.form, fmt.Sprintf("`%s` → %s, documented result %s", s.src, o.Outcome(), b.want), s.src)
			}
		}
		r := fw.Result{Verdict: fw.Held, Evals: cells, DKeys: []string{"builtin|" + b.name}, Counters: map[string]int{"cells_judged": cells}, Sample: b.recv + b.lit + " → " + b.want}
		vs.finish(&r)
		w.End(r)
	}
}

func c04formEq(vs *violSet, ctx, rk string, behs []string, outs []*interp.Obs) {
	if len(outs) < 3 {
		return
	}
	same := func(a, b *interp.Obs) bool {
		if a.Err != nil || b.Err != nil {
			return a.Err != nil && b.Err != nil && a.ErrKind == b.ErrKind && a.ErrMsg == b.ErrMsg
		}
		return a.Inspect == b.Inspect
	}
	if !same(outs[0], outs[1]) || !same(outs[0], outs[2]) {
		vs.add(fmt.Sprintf("C04|%s|forms-disagree|%s", ctx, rk), fmt.Sprintf("behaviours %v under %s: property call → %s, literal call → %s, variable call → %s",
			behs, ctx, truncateMid(outs[0].Outcome(), 200), truncateMid(outs[1].Outcome(), 200), truncateMid(outs[2].Outcome(), 200)), behs)
	}
}
