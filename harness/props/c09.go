package props

import (
	"fmt"
	"math/rand"
	"regexp"
	"sort"
	"strings"

	"verif/fw"
	"verif/interp"
)

// C09 — object and map literals, unpacking and accessors keep their documented key rules.
// Oracle: ordered-dictionary model + cross-accessor relations on the real values.

type c9key struct {
	src    string // source text of the key
	ident  string // canonical identity (type|value) for scalars, structural text for others
	scalar bool
	insp   string // Inspect() of the key
}

var c9mapKeys = []c9key{
	{"0", "int|0", true, "0"}, {"1", "int|1", true, "1"}, {"2", "int|2", true, "2"}, {"-1", "int|-1", true, "-1"}, {"3", "int|3", true, "3"},
	{"1.0", "float|1", true, "1.000000"}, {"0.5", "float|0.5", true, "0.500000"}, {"2.0", "float|2", true, "2.000000"},
	{`"a"`, "str|a", true, `"a"`}, {`"1"`, "str|1", true, `"1"`}, {`"zz"`, "str|zz", true, `"zz"`}, {`""`, "str|", true, `""`}, {`'a`, "str|a", true, `"a"`},
	{"nil", "nil", true, "nil"}, {"true", "bool|true", true, "true"}, {"false", "bool|false", true, "false"},
	{"[1]", "arr[1]", false, "[1]"}, {"[1, 2]", "arr[1,2]", false, "[1, 2]"}, {"[]", "arr[]", false, "[]"}, {"[[1]]", "arr[[1]]", false, "[[1]]"},
	{"{a: 1}", "obj{a:1}", false, `{"a": 1}`}, {"{}", "obj{}", false, "{}"}, {"[1.0]", "arr[1.0]", false, "[1.000000]"}, {`["a"]`, `arr["a"]`, false, `["a"]`},
	{"0.3", "float|0.3", true, "0.300000"}, {"(0.1 + 0.2)", "float|0.30000000000000004", true, "0.300000"}, {"0.0", "float|0", true, "0.000000"},
	{"1.0e-10", "float|1e-10", true, "0.000000"}, {"(1.0 / 4000000000.0)", "float|2.5e-10", true, "0.000000"}, {"1.0000000001", "float|1.0000000001", true, "1.000000"},
	{"{zq: 0}.bear({a: 1})", "obj{a:1}", false, `{"a": 1}`}, {"{a: 1}.bear.bro({a: 1})", "obj{a:1}", false, `{"a": 1}`}, {"{zq: 0}.bear({})", "obj{}", false, "{}"},
	// strs that differ only in the continuation bytes of a multi-byte character
	{`"é"`, "str|é", true, `"é"`}, {`"è"`, "str|è", true, `"è"`}, {`"日本"`, "str|日本", true, `"日本"`}, {`"月曜"`, "str|月曜", true, `"月曜"`}, {`"e"`, "str|e", true, `"e"`},
	{"{a: [1]}", "obj{a:[1]}", false, `{"a": [1]}`}, {"[0 + 1]", "arr[1]", false, "[1]"}, {"{'a: 1}", "obj{a:1}", false, `{"a": 1}`},
}

var c9objNames = []string{"a", "b", "c", "d", "e", "ab", "b1", "_p", "_q", "_a", "a!", "a?", "ab!", "b_", "a b", "a ", "1x", "", "Z", "Zb", "_p!", "_ p", "é", "è", "日本", "月曜", "ab\u0301"}

var reC9Public = regexp.MustCompile(`^[a-zA-Z][a-zA-Z0-9_]*[!?]?$`)
var reC9Ident = regexp.MustCompile(`^[a-zA-Z_][a-zA-Z0-9_]*[!?]?$`)

// c9public: names the language lists as public keys (symbol-like, not starting with `_`); everything else —
// private names and strings that are not symbols — is listed after them, each group in plain string order.
func c9public(name string) bool { return reC9Public.MatchString(name) }

type c9pair struct {
	key c9key
	val int
}

// c9v renders a model value: 0 stands for nil (a nil value is a value like any other: it takes part in
// first-occurrence-wins, is listed by values/items and is not replaced by a later duplicate).
func c9v(v int) string {
	if v == 0 {
		return "nil"
	}
	return fmt.Sprint(v)
}

// c9next draws the next value: a fresh 4-digit int, or nil one time in five.
func c9next(rng *rand.Rand, next *int) int {
	*next++
	if rng.Intn(5) == 0 {
		return 0
	}
	return *next
}

// first-wins insertion
func c9insert(list []c9pair, p c9pair) []c9pair {
	for _, q := range list {
		if q.key.ident == p.key.ident {
			return list
		}
	}
	return append(list, p)
}

type c9case struct {
	kind  string // obj | map
	src   string
	model []c9pair // first-wins, insertion order (literal pairs, then ** operands)
	tags  []string
	// operands written through a variable: they must be what they were after the literal has been built
	operands map[string][]c9pair
}

func genObjCase(rng *rand.Rand, next *int) c9case {
	c := c9case{kind: "obj"}
	var parts []string
	var prelude []string
	n := rng.Intn(9)
	used := map[string]bool{}
	dup := false
	for i := 0; i < n; i++ {
		name := c9objNames[rng.Intn(len(c9objNames))]
		v := c9next(rng, next)
		if used[name] {
			dup = true
		}
		used[name] = true
		var keySrc string
		form := rng.Intn(4)
		if !reC9Ident.MatchString(name) && form < 2 {
			form = 2 + rng.Intn(2) // not an identifier: quoted or pinned only
		}
		switch form {
		case 0:
			keySrc = name
		case 1:
			keySrc = "'" + name
		case 2:
			keySrc = `"` + name + `"`
		default:
			kv := fmt.Sprintf("kv%d", len(prelude))
			prelude = append(prelude, fmt.Sprintf("%s := \"%s\"", kv, name))
			keySrc = "^" + kv
			c.tags = append(c.tags, "pinned")
		}
		if !c9public(name) && !strings.HasPrefix(name, "_") {
			c.tags = append(c.tags, "non-symbol-key")
		}
		parts = append(parts, fmt.Sprintf("%s: %s", keySrc, c9v(v)))
		c.model = c9insert(c.model, c9pair{c9key{src: name, ident: name, insp: `"` + name + `"`}, v})
	}
	if dup {
		c.tags = append(c.tags, "dup-literal")
	}
	// ** operands (always after the literal pairs)
	for k := rng.Intn(3); k > 0; k-- {
		var inner []string
		var local []c9pair
		for j := rng.Intn(5); j > 0; j-- {
			name := c9objNames[rng.Intn(len(c9objNames))]
			v := c9next(rng, next)
			inner = append(inner, fmt.Sprintf("\"%s\": %s", name, c9v(v)))
			local = c9insert(local, c9pair{c9key{src: name, ident: name, insp: `"` + name + `"`}, v})
		}
		for _, p := range local {
			before := len(c.model)
			c.model = c9insert(c.model, p)
			if len(c.model) == before {
				c.tags = append(c.tags, "dup-across-unpack")
			}
		}
		lit := "{" + strings.Join(inner, ", ") + "}"
		if rng.Intn(2) == 0 {
			ov := fmt.Sprintf("ov%d", len(prelude))
			prelude = append(prelude, ov+" := "+lit)
			lit = ov
			if c.operands == nil {
				c.operands = map[string][]c9pair{}
			}
			c.operands[ov] = local
		}
		parts = append(parts, "**"+lit)
		c.tags = append(c.tags, "unpack")
	}
	c.src = strings.Join(prelude, "\n")
	if c.src != "" {
		c.src += "\n"
	}
	c.src += "o := {" + strings.Join(parts, ", ") + "}\n"
	return c
}

func genMapCase(rng *rand.Rand, next *int) c9case {
	c := c9case{kind: "map"}
	var parts []string
	n := rng.Intn(9)
	for i := 0; i < n; i++ {
		k := c9mapKeys[rng.Intn(len(c9mapKeys))]
		v := c9next(rng, next)
		parts = append(parts, fmt.Sprintf("%s: %s", k.src, c9v(v)))
		before := len(c.model)
		c.model = c9insert(c.model, c9pair{k, v})
		if len(c.model) == before {
			c.tags = append(c.tags, "dup-literal")
		}
		if !k.scalar {
			c.tags = append(c.tags, "nonscalar")
		}
	}
	for k := rng.Intn(3); k > 0; k-- {
		if rng.Intn(3) == 0 {
			// **obj operand: names become str keys, in sorted order (public then private)
			var inner []string
			var local []c9pair
			for j := rng.Intn(4); j > 0; j-- {
				name := c9objNames[rng.Intn(len(c9objNames))]
				v := c9next(rng, next)
				inner = append(inner, fmt.Sprintf("\"%s\": %s", name, c9v(v)))
				local = c9insert(local, c9pair{c9key{src: `"` + name + `"`, ident: "str|" + name, scalar: true, insp: `"` + name + `"`}, v})
			}
			sort.SliceStable(local, func(i, j int) bool {
				pi, pj := !c9public(strings.TrimPrefix(local[i].key.ident, "str|")), !c9public(strings.TrimPrefix(local[j].key.ident, "str|"))
				if pi != pj {
					return !pi
				}
				return local[i].key.ident < local[j].key.ident
			})
			for _, p := range local {
				c.model = c9insert(c.model, p)
			}
			parts = append(parts, "**{"+strings.Join(inner, ", ")+"}")
			c.tags = append(c.tags, "unpack-obj")
			continue
		}
		var inner []string
		var local []c9pair
		for j := rng.Intn(5); j > 0; j-- {
			kk := c9mapKeys[rng.Intn(len(c9mapKeys))]
			v := c9next(rng, next)
			inner = append(inner, fmt.Sprintf("%s: %s", kk.src, c9v(v)))
			local = c9insert(local, c9pair{kk, v})
		}
		// the operand map itself iterates scalars first
		for _, sc := range []bool{true, false} {
			for _, p := range local {
				if p.key.scalar == sc {
					before := len(c.model)
					c.model = c9insert(c.model, p)
					if len(c.model) == before {
						c.tags = append(c.tags, "dup-across-unpack")
					}
				}
			}
		}
		parts = append(parts, "**%{"+strings.Join(inner, ", ")+"}")
		c.tags = append(c.tags, "unpack-map")
	}
	c.src = "m := %{" + strings.Join(parts, ", ") + "}\n"
	return c
}

func inspList(items []string) string { return "[" + strings.Join(items, ", ") + "]" }

var reVal = regexp.MustCompile(`: [1-9][0-9]{3,}\b`)

func c9check(ip *interp.Interp, c *c9case) (key, detail string) {
	q := func(expr string) *interp.Obs { return ip.Run(c.src+expr, interp.Options{}) }
	fail := func(acc, got, want string) (string, string) {
		return "C09|" + c.kind + "|" + acc, fmt.Sprintf("%s%s → %s, model says %s", c.src, acc, got, want)
	}
	expect := func(acc, expr, want string) (string, string) {
		o := q(expr)
		if !o.OK() || o.Inspect != want {
			return fail(acc+" (`"+expr+"`)", o.Outcome(), want)
		}
		return "", ""
	}
	if c.kind == "obj" {
		var pub, priv []c9pair
		for _, p := range c.model {
			if !c9public(p.key.ident) {
				priv = append(priv, p)
			} else {
				pub = append(pub, p)
			}
		}
		sort.Slice(pub, func(i, j int) bool { return pub[i].key.ident < pub[j].key.ident })
		sort.Slice(priv, func(i, j int) bool { return priv[i].key.ident < priv[j].key.ident })
		render := func(ps []c9pair, what string) string {
			var it []string
			for _, p := range ps {
				switch what {
				case "k":
					it = append(it, p.key.insp)
				case "v":
					it = append(it, c9v(p.val))
				default:
					it = append(it, fmt.Sprintf("[%s, %s]", p.key.insp, c9v(p.val)))
				}
			}
			return inspList(it)
		}
		all := append(append([]c9pair{}, pub...), priv...)
		for _, t := range []struct{ acc, expr, want string }{
			{"keys", "o.keys", render(pub, "k")}, {"values", "o.values", render(pub, "v")}, {"items", "o.items", render(pub, "i")},
			{"A", "o.A", render(pub, "i")}, {"iteration", "o@{|k, v| [k, v]}", render(pub, "i")},
			{"keys(private?: true)", "o.keys(private?: true)", render(all, "k")}, {"values(private?: true)", "o.values(private?: true)", render(all, "v")},
			{"items(private?: true)", "o.items(private?: true)", render(all, "i")},
			// only `true` asks for the private names
			{"keys(private?: false)", "o.keys(private?: false)", render(pub, "k")}, {"keys(private?: nil)", "o.keys(private?: nil)", render(pub, "k")},
			{"values(private?: nil)", "o.values(private?: nil)", render(pub, "v")}, {"items(private?: false)", "o.items(private?: false)", render(pub, "i")},
			{"keys(**{private?: nil})", "o.keys(**{private?: nil})", render(pub, "k")}, {"keys through a wrapper without the flag", "{|ob, private?: nil| ob.keys(private?: private?)}(o)", render(pub, "k")},
		} {
			if k, d := expect(t.acc, t.expr, t.want); k != "" {
				return k, d
			}
		}
		for _, p := range c.model {
			if k, d := expect("index present", "o[\""+p.key.ident+"\"]", c9v(p.val)); k != "" {
				return k, d
			}
			if !reC9Ident.MatchString(p.key.ident) {
				continue
			}
			if k, d := expect("index present", "o['"+p.key.ident+"]", c9v(p.val)); k != "" {
				return k, d
			}
			if k, d := expect("property read", "o."+p.key.ident, c9v(p.val)); k != "" {
				return k, d
			}
		}
		if k, d := expect("index absent", "o['zq]", "nil"); k != "" {
			return k, d
		}
		for ov, local := range c.operands {
			var opub, opriv []c9pair
			for _, p := range local {
				if c9public(p.key.ident) {
					opub = append(opub, p)
				} else {
					opriv = append(opriv, p)
				}
			}
			sort.Slice(opub, func(i, j int) bool { return opub[i].key.ident < opub[j].key.ident })
			sort.Slice(opriv, func(i, j int) bool { return opriv[i].key.ident < opriv[j].key.ident })
			if k, d := expect("** operand unchanged by the literal", ov+".items(private?: true)", render(append(opub, opriv...), "i")); k != "" {
				return k, d
			}
			// keys the operand never had stay absent from it (index, printed form)
			for _, p := range c.model {
				has := false
				for _, q := range local {
					if q.key.ident == p.key.ident {
						has = true
					}
				}
				if !has {
					if k, d := expect("** operand unchanged by the literal", ov+"[\""+p.key.ident+"\"]", "nil"); k != "" {
						return k, d
					}
				}
			}
			if k, d := expect("** operand unchanged by the literal", ov+".S == "+ov+".items(private?: true).O.S", "true"); k != "" {
				return k, d
			}
		}
		// printing: the multiset of values printed equals all values (private included)
		for _, acc := range []string{"o.S", "o.repr", "o"} {
			o := q(acc)
			got := reVal.FindAllString(o.Inspect, -1)
			for i := range got {
				got[i] = strings.TrimPrefix(got[i], ": ")
			}
			sort.Strings(got)
			var want []string
			for _, p := range c.model {
				if p.val != 0 {
					want = append(want, fmt.Sprint(p.val))
				}
			}
			sort.Strings(want)
			if !o.OK() || strings.Join(got, ",") != strings.Join(want, ",") {
				return fail("printing `"+acc+"`", o.Outcome(), "values "+strings.Join(want, ","))
			}
		}
		return "", ""
	}
	// map
	var ordered []c9pair
	for _, sc := range []bool{true, false} {
		for _, p := range c.model {
			if p.key.scalar == sc {
				ordered = append(ordered, p)
			}
		}
	}
	var ks, vs, its []string
	for _, p := range ordered {
		ks = append(ks, p.key.insp)
		vs = append(vs, c9v(p.val))
		its = append(its, fmt.Sprintf("[%s, %s]", p.key.insp, c9v(p.val)))
	}
	for _, t := range []struct{ acc, expr, want string }{
		{"keys", "m.keys", inspList(ks)}, {"values", "m.values", inspList(vs)}, {"items", "m.items", inspList(its)}, {"A", "m.A", inspList(its)},
		{"len", "m.len", fmt.Sprint(len(ordered))}, {"iteration", "m=@{|k, v| [k, v]}", inspList(its)},
		{"cross: keys.len == values.len == items.len == A.len == len", "[m.keys.len, m.values.len, m.items.len, m.A.len] == [m.len, m.len, m.len, m.len]", "true"},
		{"cross: m[keys[i]] == values[i]", "m.keys=@{|k| m[k]} == m.values", "true"},
		// maps built by the library (a list chain digesting pairs into a map, Map#digest, keyBy) follow the same key rules
		{"digest round trip", "m.A@(%{}){|k, v| [k, v]} == m", "true"},
		{"digest of repeated pairs keeps the first of equal keys", "[(m.A + m.A.rev)@(%{}){|k, v| [k, v]}.len, %{}.digest(m.A + m.A).len, (m.A + m.A)@(%{}){|k, v| [k, v]} == m]", fmt.Sprintf("[%d, %d, true]", len(ordered), len(ordered))},
		{"keyBy over repeated keys", "(m.keys + m.keys).keyBy {|k| k}.len", fmt.Sprint(len(ordered))},
		{"Arr#M of repeated pairs keeps the first of equal keys", "[(m.A + m.A).M.len, (m.A + m.A.rev).M == m, (m.A + m.A).M.keys == m.keys, (m.A + m.A).M.values == m.values]", fmt.Sprintf("[%d, true, true, true]", len(ordered))},
	} {
		if k, d := expect(t.acc, t.expr, t.want); k != "" {
			return k, d
		}
	}
	for _, p := range c.model {
		if k, d := expect("index present ("+pickS(p.key.scalar, "scalar", "non-scalar")+" key)", "m["+p.key.src+"]", c9v(p.val)); k != "" {
			return k, d
		}
		// every other spelling of an equal key finds the same pair
		for _, k2 := range c9mapKeys {
			if k2.ident == p.key.ident && k2.src != p.key.src {
				if k, d := expect("index present through an equal key written differently", "m["+k2.src+"]", c9v(p.val)); k != "" {
					return k, d
				}
			}
		}
	}
	for _, abs := range []string{"99", "[9]", `"zq"`, "{zq: 1}", "9.5", `"zq_absent"`} {
		if k, d := expect("index absent", "m["+abs+"]", "nil"); k != "" {
			return k, d
		}
	}
	for _, acc := range []string{"m.S", "m.repr", "m"} {
		o := q(acc)
		got := reVal.FindAllString(o.Inspect, -1)
		for i := range got {
			got[i] = strings.TrimPrefix(got[i], ": ")
		}
		sort.Strings(got)
		var want []string
		for _, v := range vs {
			if v != "nil" {
				want = append(want, v)
			}
		}
		sort.Strings(want)
		if !o.OK() || strings.Join(got, ",") != strings.Join(want, ",") {
			return fail("printing `"+acc+"`", o.Outcome(), "values "+strings.Join(want, ","))
		}
	}
	return "", ""
}

func init() {
	fw.Register(&fw.Prop{
		ID:    "C09",
		Level: "exploration",
		Rule: "generated object literals (bare, symbol, quoted and pinned keys, private names, duplicates at every distance, 0–2 `**obj` operands written literally or through a variable, sizes 0–12) and map literals over 27 key spellings (ints, floats, strs, symbols, nil, booleans, arrays, objects, nested, computed) with duplicates within and across `**map` / `**obj` operands; values are unique ints. " +
			"Every accessor of the statement (keys, values, items, A, len, iteration, indexing present/absent, private?: true, S/repr/printing) is compared with a first-wins ordered-dictionary model, plus model-free cross-accessor relations. `**` operands are written after the literal pairs (where 'first occurrence' is unambiguous). distinct = distinct (kind, tag set, size) classes; non-trivial = the literal evaluated to a value" +
			" Added: nil values (one in five), float keys closer than 1e-9, names with !/?/_ suffixes and non-symbol keys, ** operands written through variables must be unchanged afterwards. Sixth round: strs differing only in continuation bytes of multi-byte characters as keys and names; `Arr#M` over repeated pairs.",
		Assumptions: []string{
			"model: object = first-wins over names, listed sorted by name (public, then private when asked); map = first-wins where scalar keys are identified by (type, value) and other keys by structural equality, iterated scalars-first in insertion order",
			"NaN and -0.0 keys and `**` operands written before literal pairs are not generated (the statement does not fix their meaning)",
		},
		Floor: func(m *fw.Merged) string {
			if m.Counters["literals_judged"] < 1500 {
				return fmt.Sprintf("judged=%d", m.Counters["literals_judged"])
			}
			return ""
		},
		Run: runC09,
	})
}

func runC09(w *fw.W) {
	var ip *interp.Interp
	nb := w.Pick(64, 2000)
	for b := 0; b < nb; b++ {
		if !w.Take() {
			continue
		}
		if ip == nil {
			ip = interp.New()
		}
		rng := w.Rand()
		w.Begin(fmt.Sprintf("batch %d", b), map[string]any{"batch": b})
		var vs violSet
		dk := map[string]struct{}{}
		next := 1000
		n := 0
		var sample string
		for i := 0; i < 50; i++ {
			var c c9case
			if i%2 == 0 {
				c = genObjCase(rng, &next)
			} else {
				c = genMapCase(rng, &next)
			}
			w.Note(c.src)
			o := ip.Run(c.src, interp.Options{})
			if !o.OK() {
				vs.add("C09|"+c.kind+"|literal-does-not-evaluate", c.src+" → "+o.Outcome(), c.src)
				continue
			}
			n++
			if key, detail := c9check(ip, &c); key != "" {
				vs.add(key, detail, c.src)
			} else if sample == "" && len(c.model) > 3 && len(c.tags) > 1 {
				sample = strings.TrimSpace(c.src) + "  ✓ all accessors agree with the model"
			}
			tags := append([]string{}, c.tags...)
			sort.Strings(tags)
			dk[fmt.Sprintf("%s|%s|n=%d", c.kind, strings.Join(uniqStr(tags), "+"), len(c.model))] = struct{}{}
		}
		r := fw.Result{Verdict: fw.Held, Evals: n, Counters: map[string]int{"literals_judged": n}}
		for k := range dk {
			r.DKeys = append(r.DKeys, k)
		}
		if sample != "" {
			r.Sample = sample
		}
		vs.finish(&r)
		w.End(r)
	}
}

func uniqStr(s []string) []string {
	var out []string
	for i, x := range s {
		if i == 0 || x != s[i-1] {
			out = append(out, x)
		}
	}
	return out
}
