package props

import (
	"bytes"
	"fmt"
	"io"
	"math/rand"
	"os"
	"path/filepath"
	"sort"
	"strings"
	"testing/iotest"

	"github.com/Syuparn/pangaea/object"
	"github.com/Syuparn/pangaea/runscript"

	"verif/fw"
	"verif/interp"
)

// C16 — parsing does not depend on layout volume, token length or input chunking.
// Oracle: metamorphic equality of the printed AST with the base parse (and of token
// values with the constructed text).

const nlMark = "\x01" // a place where the grammar allows a line break

// base programs built from a kit in which every legal line-break place is marked.
var c16kit = []string{
	"a := [" + nlMark + "1," + nlMark + " 2," + nlMark + " 3" + nlMark + "]",
	"f := {|x|" + nlMark + " x + 1" + nlMark + "}",
	"f2 := {" + nlMark + "|x| x * 2}",
	"o := {" + nlMark + "a: 1," + nlMark + " b: 2" + nlMark + "}",
	"m := %{" + nlMark + "1: 2," + nlMark + " 3: 4" + nlMark + "}",
	"g := m{|y|" + nlMark + " y * 2" + nlMark + " y" + nlMark + "}",
	"it := <{|i|" + nlMark + " yield i if i < 3" + nlMark + " recur(i + 1)" + nlMark + "}>",
	"mi := m<{" + nlMark + "yield 1" + nlMark + "}>",
	"r := f(" + nlMark + "1," + nlMark + " 2" + nlMark + ")",
	"q := a" + nlMark + "|.rev" + nlMark + "|@S",
	"w := a" + nlMark + "|&@p(1)" + nlMark + "|~.q",
	"t := a[" + nlMark + "1" + nlMark + "]",
	"u := o.at(" + nlMark + "['a])",
	"h := a.{|x|" + nlMark + " x}",
	"s := \"str # not a comment\" + `raw # not a comment`",
	"e := \"emb #{a[0]} mid #{1 + 2} end\"",
	"c := ?# + 'sym",
	"k := f(1," + nlMark + " k: 2)",
	// tokens that end right before a line break: the bare argument `\`, `\2`, a symbol, a char literal
	"b1 := {|x, y|" + nlMark + " \\" + nlMark + "}",
	"b2 := [1, 2]@{" + nlMark + "\\" + nlMark + "}",
	"b3 := {|p, q|" + nlMark + " \\2" + nlMark + "}",
	"sy := ['s1," + nlMark + " 's2" + nlMark + "]",
	"ch := [?a," + nlMark + " ?b" + nlMark + "]",
	"b4 := b1(42, 0) + b3(1, 2)",
}

func c16render(tmpl string, pad func(site int) string) string {
	var b strings.Builder
	site := 0
	for _, part := range strings.SplitAfter(tmpl, nlMark) {
		if strings.HasSuffix(part, nlMark) {
			b.WriteString(strings.TrimSuffix(part, nlMark))
			b.WriteString(pad(site))
			site++
		} else {
			b.WriteString(part)
		}
	}
	return b.String()
}

func c16sites(tmpl string) int { return strings.Count(tmpl, nlMark) }

// padding generators: a run of `total` bytes (approximately, exactly when possible) that is
// a legal replacement for one line break.
func c16pad(kind string, total int, rng *rand.Rand) string {
	if total < 1 {
		total = 1
	}
	var b strings.Builder
	switch kind {
	case "blank":
		b.WriteString(strings.Repeat("\n", total))
	case "comment-lines":
		// comment lines of ~40 bytes
		for b.Len() < total {
			n := 40
			if rest := total - b.Len(); rest < n+1 {
				n = rest - 1
			}
			if n < 1 {
				b.WriteString("\n")
				break
			}
			b.WriteString("#" + c16filler("c", n-1, rng) + "\n")
		}
	case "one-long-comment":
		if total < 3 {
			return strings.Repeat("\n", total)
		}
		// first finish the current line, then one comment of total-2 bytes
		b.WriteString("\n#" + c16filler("x", total-3, rng) + "\n")
	case "space-lines":
		for b.Len() < total {
			n := 1 + rng.Intn(30)
			if rest := total - b.Len(); rest < n+1 {
				n = rest - 1
			}
			if n < 0 {
				n = 0
			}
			for i := 0; i < n; i++ {
				b.WriteByte(" \t"[rng.Intn(2)])
			}
			b.WriteString("\n")
		}
	case "mixed":
		for b.Len() < total {
			switch rng.Intn(3) {
			case 0:
				b.WriteString("\n")
			case 1:
				b.WriteString("  \t# mixed " + c16filler("m", rng.Intn(50), rng) + "\n")
			default:
				b.WriteString(strings.Repeat(" ", rng.Intn(8)) + "\n")
			}
		}
	case "trailing-comment":
		// a comment on the same line as the code, then the break
		if total < 4 {
			return strings.Repeat("\n", total)
		}
		b.WriteString(" #" + c16filler("t", total-3, rng) + "\n")
	}
	// indentation before the next token
	return b.String() + strings.Repeat(" ", rng.Intn(4))
}

// c16filler is comment text of exactly n bytes: uniform filler half of the time, otherwise text that looks like
// code (chain operators after a bar, quotes, brackets, embedded-string openers, escapes) — a comment is one
// token whatever it contains.
var c16hostile = []string{"|.rev", " |@p", "|$(0)+", "| .keys", "\"", "`", "#{", "}", ")", "]", "'", "\\", "|", ".", ":=", "?", "# ", "<{", "%{", "é", "\t", " if ", "xs |.S", "|&.a", "|~@b", "|=$c"}

func c16filler(fill string, n int, rng *rand.Rand) string {
	if n <= 0 {
		return ""
	}
	if rng.Intn(2) == 0 {
		return strings.Repeat(fill, n)
	}
	var b strings.Builder
	for b.Len() < n {
		t := c16hostile[rng.Intn(len(c16hostile))]
		if b.Len()+len(t) > n {
			t = fill
		}
		b.WriteString(t)
	}
	return b.String()
}

var c16padKinds = []string{"blank", "comment-lines", "one-long-comment", "space-lines", "mixed", "trailing-comment"}
var c16sizes = []int{1, 2, 3, 100, 1000, 1023, 1024, 1025, 2047, 2048, 2049, 3000, 3071, 3072, 3073, 4096, 5000, 8192, 10000, 65536, 70000}

// chunking readers
type chunkReader struct {
	data  []byte
	sizes func() int
	zero  bool // emit a zero-length read before every chunk
	flip  bool
}

func (c *chunkReader) Read(p []byte) (int, error) {
	if c.zero {
		c.flip = !c.flip
		if c.flip {
			return 0, nil
		}
	}
	if len(c.data) == 0 {
		return 0, io.EOF
	}
	n := c.sizes()
	if n < 1 {
		n = 1
	}
	if n > len(p) {
		n = len(p)
	}
	if n > len(c.data) {
		n = len(c.data)
	}
	copy(p, c.data[:n])
	c.data = c.data[n:]
	return n, nil
}

type c16chunker struct {
	name string
	mk   func(src string, rng *rand.Rand) io.Reader
}

func c16chunkers() []c16chunker {
	fixed := func(n int) c16chunker {
		return c16chunker{fmt.Sprintf("fixed-%d", n), func(src string, _ *rand.Rand) io.Reader {
			return &chunkReader{data: []byte(src), sizes: func() int { return n }}
		}}
	}
	cs := []c16chunker{
		{"one-byte", func(src string, _ *rand.Rand) io.Reader { return iotest.OneByteReader(strings.NewReader(src)) }},
		{"half", func(src string, _ *rand.Rand) io.Reader { return iotest.HalfReader(strings.NewReader(src)) }},
		{"data-with-eof", func(src string, _ *rand.Rand) io.Reader { return iotest.DataErrReader(strings.NewReader(src)) }},
		{"random-sizes", func(src string, rng *rand.Rand) io.Reader {
			return &chunkReader{data: []byte(src), sizes: func() int { return 1 + rng.Intn(3000) }}
		}},
		{"zero-length-reads", func(src string, rng *rand.Rand) io.Reader {
			return &chunkReader{data: []byte(src), sizes: func() int { return 1 + rng.Intn(700) }, zero: true}
		}},
	}
	for _, n := range []int{2, 3, 7, 64, 1000, 1023, 1024, 2047, 2048, 2049, 4096} {
		cs = append(cs, fixed(n))
	}
	return cs
}

// corpus programs (read from the working tree at run time)
func c16corpus() []string {
	var files []string
	for _, pat := range []string{"/repo/tests/*.pangaea", "/repo/example/*.pangaea", "/repo/native/*.pangaea"} {
		m, _ := filepath.Glob(pat)
		files = append(files, m...)
	}
	sort.Strings(files)
	return files
}

// topLevelBreaks finds code-level line breaks at bracket depth 0 with an independent scanner
// (strings, raw strings, char literals, comments). It returns nil when the file uses
// something the scanner does not model (then the file is only used for chunking).
func topLevelBreaks(src string) []int {
	if strings.Contains(src, "#{") || strings.Contains(src, "\r") {
		return nil
	}
	var out []int
	depth := 0
	rs := []rune(src)
	isIdent := func(r rune) bool {
		return r == '_' || r >= '0' && r <= '9' || r >= 'a' && r <= 'z' || r >= 'A' && r <= 'Z'
	}
	bytePos := 0
	lineHasCode := false
	for i := 0; i < len(rs); i++ {
		r := rs[i]
		w := len(string(r))
		switch {
		case r == '#':
			for i < len(rs) && rs[i] != '\n' {
				bytePos += len(string(rs[i]))
				i++
			}
			i--
			continue
		case r == '"':
			bytePos += w
			i++
			for i < len(rs) && rs[i] != '"' {
				if rs[i] == '\\' && i+1 < len(rs) {
					bytePos += len(string(rs[i]))
					i++
				}
				if rs[i] == '\n' {
					return nil
				}
				bytePos += len(string(rs[i]))
				i++
			}
			bytePos += 1
			lineHasCode = true
			continue
		case r == '`':
			bytePos += w
			i++
			for i < len(rs) && rs[i] != '`' {
				if rs[i] == '\\' && i+1 < len(rs) {
					bytePos += len(string(rs[i]))
					i++
				}
				bytePos += len(string(rs[i]))
				i++
			}
			bytePos += 1
			lineHasCode = true
			continue
		case r == '?' && (i == 0 || !isIdent(rs[i-1])) && i+1 < len(rs):
			// char literal ?x or ?\n
			if rs[i+1] == '\\' {
				return nil
			}
			bytePos += w + len(string(rs[i+1]))
			i++
			lineHasCode = true
			continue
		case r == '\'':
			// symbol: skip operator characters so that '# or '" are not misread
			if i+1 < len(rs) && !isIdent(rs[i+1]) {
				return nil
			}
		case r == '(' || r == '[' || r == '{':
			depth++
		case r == ')' || r == ']' || r == '}':
			depth--
		case r == '|':
			// multi-line chain continuation lines start with `|`: do not touch such files
			if !lineHasCode {
				return nil
			}
		case r == '\n':
			if depth == 0 && lineHasCode {
				out = append(out, bytePos)
			}
			lineHasCode = false
			bytePos += w
			continue
		}
		if r != ' ' && r != '\t' {
			lineHasCode = true
		}
		bytePos += w
	}
	if depth != 0 {
		return nil
	}
	return out
}

func c16parseStr(src string, wrap func(string) io.Reader) (string, string) {
	p, perr, pp := interp.Parse(src, "<c16>", wrap)
	if p == nil {
		return "", "parse failed: " + firstLine(perr) + pp
	}
	return p.String(), ""
}

func init() {
	fw.Register(&fw.Prop{
		ID:    "C16",
		Level: "exploration",
		Rule: "base programs = a kit of statements in which every grammar-allowed line-break place is marked (brackets, braces, commas, parameter lists, statement ends, multi-line chains, program start) plus the corpus (tests/, example/, native/); " +
			"variants: (1) each marked break, one at a time and all together, replaced by padding of 6 kinds (blank lines, comment lines, one long comment, space/tab lines, mixed, trailing comment) with run lengths from {1…70000} incl. 1023/1024/1025/2047/2048/2049 and leading shifts {0,1000,2040}; " +
			"(2) single tokens (string, raw string, comment, identifier, symbol, int, embedded-string piece) of those lengths at file offsets {0,1000,2040}; (3) the same bytes delivered through 16 chunking readers (1 byte, half, data+EOF, zero-length reads, fixed and random sizes). " +
			"non-trivial = base program parses and the variant was compared; distinct = distinct (variant family, padding kind or token kind or chunker, size, shift) tuples" +
			" Added: comment text drawn from code-like fragments, the script-file and test-directory entry points (9 token kinds × lengths up to 200 000 bytes, compared with the same bytes evaluated in process), pairs of long tokens differing in one character. Sixth round: script files also loaded through import / invite!; multi-byte characters straddling offsets 512 / 1024 / 4096 / 65536; a raw string spanning CR LF in a CR LF file.",
		Assumptions: []string{
			"the printed AST (Program.String()) identifies the parse; source positions are not compared",
			"the independent scanner only pads top-level statement breaks of corpus files it fully understands (no embedded strings, no char-literal escapes); other corpus files are used for chunking only",
		},
		Floor: func(m *fw.Merged) string {
			if m.Counters["padding_variants"] < 200 || m.Counters["token_length_variants"] < 200 || m.Counters["chunking_variants"] < 200 {
				return fmt.Sprintf("padding=%d token=%d chunking=%d", m.Counters["padding_variants"], m.Counters["token_length_variants"], m.Counters["chunking_variants"])
			}
			return ""
		},
		Run: runC16,
	})
}

func runC16(w *fw.W) {
	type batchFn func(vs *violSet, dk map[string]struct{}, counters map[string]int, sample *string)
	runBatch := func(label string, fn batchFn) {
		if !w.Take() {
			return
		}
		w.Begin(label, map[string]any{"batch": label})
		var vs violSet
		dk := map[string]struct{}{}
		counters := map[string]int{}
		sample := ""
		fn(&vs, dk, counters, &sample)
		n := 0
		for _, v := range counters {
			n += v
		}
		r := fw.Result{Verdict: fw.Held, Evals: n, Counters: counters}
		for k := range dk {
			r.DKeys = append(r.DKeys, k)
		}
		if sample != "" {
			r.Sample = sample
		}
		vs.finish(&r)
		w.End(r)
	}
	sizes := c16sizes
	if !w.Thorough() {
		sizes = []int{1, 3, 1000, 1023, 1024, 1025, 2047, 2048, 2049, 3073, 5000, 70000}
	}
	shifts := []int{0, 1000, 2040}

	// base program: whole kit joined by marked breaks, with a marked break at program start
	whole := nlMark + strings.Join(c16kit, nlMark) + nlMark + "a"
	single := func(int) string { return "\n" }
	baseWhole := c16render(whole, single)

	// (1z) the three line-break spellings (LF, CR LF, lone CR), bare and after comments, in every break place
	runBatch("line-break spellings", func(vs *violSet, dk map[string]struct{}, counters map[string]int, sample *string) {
		want, e := c16parseStr(baseWhole, nil)
		if e != "" {
			vs.add("C16|base-does-not-parse", e, baseWhole)
			return
		}
		for _, brk := range []string{"\r", "\r\n"} {
			for name, pad := range map[string]string{"bare": brk, "trailing comment": " # c |.x \"" + brk, "comment line": brk + "# c }" + brk, "blank and comment lines": brk + brk + "\t# c" + brk + "  " + brk} {
				v := c16render(whole, func(int) string { return pad })
				got, e := c16parseStr(v, nil)
				counters["padding_variants"]++
				if got != want {
					vs.add(fmt.Sprintf("C16|line-break-spelling|%q|%s", brk, name), fmt.Sprintf("every break written as %q (%s): %s", pad, name, orDiff(e, got, want)), map[string]any{"break": brk, "pad": name})
				}
				dk[fmt.Sprintf("eol|%q|%s", brk, name)] = struct{}{}
			}
		}
		*sample = "kit program with every break written as CR / CR LF (bare, after comments): same parse as with LF"
	})

	// (1a) one site at a time in the whole-kit program
	nsites := c16sites(whole)
	for _, kind := range c16padKinds {
		for _, size := range sizes {
			kind, size := kind, size
			runBatch(fmt.Sprintf("pad one site kind=%s size=%d", kind, size), func(vs *violSet, dk map[string]struct{}, counters map[string]int, sample *string) {
				rng := w.Rand()
				want, e := c16parseStr(baseWhole, nil)
				if e != "" {
					vs.add("C16|base-does-not-parse", e, baseWhole)
					return
				}
				// quick: a seed-chosen third of the sites; thorough: all
				for site := 0; site < nsites; site++ {
					if !w.Thorough() && rng.Intn(3) != 0 {
						continue
					}
					for _, shift := range shifts {
						if shift != 0 && (site%4 != 0) {
							continue
						}
						src := c16render(whole, func(s int) string {
							if s == site {
								return c16pad(kind, size, rng)
							}
							return "\n"
						})
						if shift > 0 {
							src = "#" + strings.Repeat("s", shift-2) + "\n" + src
						}
						w.Note(fmt.Sprintf("site %d shift %d", site, shift))
						got, e := c16parseStr(src, nil)
						counters["padding_variants"]++
						if got != want {
							vs.add(fmt.Sprintf("C16|pad|%s|size:%s|%s", kind, sizeClass(size), c16siteClass(whole, site)),
								fmt.Sprintf("break #%d replaced by %d bytes of %s padding (shift %d): %s", site, size, kind, shift, orDiff(e, got, want)),
								map[string]any{"site": site, "kind": kind, "size": size, "shift": shift})
						}
						dk[fmt.Sprintf("pad|%s|%d|%d|%s", kind, size, shift, c16siteClass(whole, site))] = struct{}{}
					}
				}
				if *sample == "" {
					*sample = fmt.Sprintf("every marked break of the %d-statement kit program replaced by %d bytes of %s padding", len(c16kit), size, kind)
				}
			})
		}
	}
	// (1b) all sites together
	for _, kind := range c16padKinds {
		kind := kind
		runBatch("pad all sites kind="+kind, func(vs *violSet, dk map[string]struct{}, counters map[string]int, sample *string) {
			rng := w.Rand()
			want, e := c16parseStr(baseWhole, nil)
			if e != "" {
				return
			}
			for _, size := range []int{1, 2, 40, 300, 1030, 2050} {
				src := c16render(whole, func(int) string { return c16pad(kind, size, rng) })
				got, e := c16parseStr(src, nil)
				counters["padding_variants"]++
				if got != want {
					vs.add(fmt.Sprintf("C16|pad-all|%s|size:%s", kind, sizeClass(size)),
						fmt.Sprintf("all %d breaks replaced by %d bytes of %s padding: %s", nsites, size, kind, orDiff(e, got, want)), map[string]any{"kind": kind, "size": size})
				}
				dk[fmt.Sprintf("padall|%s|%d", kind, size)] = struct{}{}
			}
		})
	}
	// (1c) corpus files: top-level statement breaks found by the independent scanner
	files := c16corpus()
	for fi, f := range files {
		f := f
		if !w.Thorough() && fi%6 != 0 {
			continue
		}
		runBatch("corpus pad "+filepath.Base(f), func(vs *violSet, dk map[string]struct{}, counters map[string]int, sample *string) {
			b, err := os.ReadFile(f)
			if err != nil {
				return
			}
			src := string(b)
			want, e := c16parseStr(src, nil)
			if e != "" {
				counters["corpus_files_not_parsing"]++
				return
			}
			breaks := topLevelBreaks(src)
			if len(breaks) == 0 {
				counters["corpus_files_scanner_declined"]++
				return
			}
			rng := w.Rand()
			for k := 0; k < 6; k++ {
				bp := breaks[rng.Intn(len(breaks))]
				kind := c16padKinds[rng.Intn(len(c16padKinds))]
				size := sizes[rng.Intn(len(sizes))]
				v := src[:bp] + c16pad(kind, size, rng) + src[bp+1:]
				got, e := c16parseStr(v, nil)
				counters["padding_variants"]++
				counters["corpus_padding_variants"]++
				if got != want {
					vs.add(fmt.Sprintf("C16|pad-corpus|%s|size:%s", kind, sizeClass(size)),
						fmt.Sprintf("%s: statement break at byte %d replaced by %d bytes of %s padding: %s", f, bp, size, kind, orDiff(e, got, want)),
						map[string]any{"file": f, "byte": bp, "kind": kind, "size": size})
				}
				dk[fmt.Sprintf("padcorpus|%s|%s|%d", filepath.Base(f), kind, size)] = struct{}{}
			}
		})
	}

	// (2) token length
	var ip *interp.Interp
	tokKinds := []string{"string", "raw-string", "comment", "identifier", "symbol", "int-leading-zeros", "embedded-piece", "private-identifier", "trailing-comment-eof",
		"identifier-pair", "string-pair", "key-pair", "symbol-pair", "identifier-pair-middle"}
	for _, tk := range tokKinds {
		tk := tk
		runBatch("token length "+tk, func(vs *violSet, dk map[string]struct{}, counters map[string]int, sample *string) {
			if ip == nil {
				ip = interp.New()
			}
			for _, L := range c16sizes {
				for _, shift := range shifts {
					prefix := ""
					if shift > 0 {
						prefix = "#" + strings.Repeat("s", shift-2) + "\n"
					}
					body := strings.Repeat("a", L)
					var src, wantIns string
					switch tk {
					case "string":
						src, wantIns = prefix+`"`+body+`"`, `"`+body+`"`
					case "raw-string":
						src, wantIns = prefix+"`"+body+"`", `"`+body+`"`
					case "comment":
						src, wantIns = prefix+"#"+body+"\n42", "42"
					case "trailing-comment-eof":
						src, wantIns = prefix+"42 #"+body, "42"
					case "identifier":
						src, wantIns = prefix+body+" := 42; "+body, "42"
					case "private-identifier":
						src, wantIns = prefix+"{_"+body+": 42}._"+body, "42"
					case "symbol":
						src, wantIns = prefix+"'"+body, `"`+body+`"`
					case "int-leading-zeros":
						src, wantIns = prefix+strings.Repeat("0", L)+"42", "42"
					case "embedded-piece":
						src, wantIns = prefix+`"`+body+`#{1}`+body+`#{2}`+body+`"`, `"`+body+"1"+body+"2"+body+`"`
					// two long tokens that differ in one character only are two different names / strings (full text)
					case "identifier-pair":
						src, wantIns = prefix+body+"x := 1; "+body+"y := 2; ["+body+"x, "+body+"y]", "[1, 2]"
					case "identifier-pair-middle":
						src, wantIns = prefix+"p"+body+"x"+body+" := 1; p"+body+"y"+body+" := 2; [p"+body+"x"+body+", p"+body+"y"+body+"]", "[1, 2]"
					case "string-pair":
						src, wantIns = prefix+`["`+body+`x" == "`+body+`y", "`+body+`x" == "`+body+`x", %{"`+body+`x": 1, "`+body+`y": 2}.len]`, "[false, true, 2]"
					case "key-pair":
						src, wantIns = prefix+"o := {"+body+"x: 1, "+body+"y: 2}; [o.keys.len, o."+body+"x, o."+body+"y]", "[2, 1, 2]"
					case "symbol-pair":
						src, wantIns = prefix+"['"+body+"x == '"+body+"y, {"+body+"x: 5}['"+body+"y]]", "[false, nil]"
					}
					w.Note(fmt.Sprintf("%s L=%d shift=%d", tk, L, shift))
					o := ip.Run(src, interp.Options{})
					counters["token_length_variants"]++
					if !o.OK() || o.Inspect != wantIns {
						got := o.Outcome()
						if len(got) > 120 {
							got = got[:60] + "…" + got[len(got)-40:]
						}
						vs.add(fmt.Sprintf("C16|token-length|%s|size:%s", tk, sizeClass(L)),
							fmt.Sprintf("%s token of length %d at offset %d: got %s (parse error: %s)", tk, L, shift, got, firstLine(o.ParseErr)),
							map[string]any{"token": tk, "length": L, "offset": shift})
					}
					dk[fmt.Sprintf("tok|%s|%d|%d", tk, L, shift)] = struct{}{}
				}
			}
			*sample = fmt.Sprintf("%s tokens of lengths %v at offsets %v evaluate to their full text", tk, c16sizes, shifts)
		})
	}

	// (3) chunking: kit program, padded kit program, multi-byte text, corpus files
	chunkers := c16chunkers()
	multi := "s := \"" + strings.Repeat("日本語€😀é", 400) + "\"\n" + baseWhole
	bases := []struct{ name, src string }{{"kit", baseWhole}, {"multi-byte", multi},
		{"kit-padded", c16render(whole, func(i int) string { return c16pad("mixed", 700, rand.New(rand.NewSource(int64(i)))) })}}
	for fi, f := range files {
		if !w.Thorough() && fi%9 != 0 {
			continue
		}
		if b, err := os.ReadFile(f); err == nil {
			bases = append(bases, struct{ name, src string }{filepath.Base(f), string(b)})
		}
	}
	for _, base := range bases {
		base := base
		runBatch("chunking "+base.name, func(vs *violSet, dk map[string]struct{}, counters map[string]int, sample *string) {
			want, e := c16parseStr(base.src, nil)
			if e != "" {
				counters["chunking_bases_not_parsing"]++
				return
			}
			rng := w.Rand()
			for _, ch := range chunkers {
				ch := ch
				w.Note(ch.name)
				got, e := c16parseStr(base.src, func(s string) io.Reader { return ch.mk(s, rng) })
				counters["chunking_variants"]++
				if got != want {
					vs.add("C16|chunking|"+ch.name, fmt.Sprintf("%s (%d bytes) read through %s: %s", base.name, len(base.src), ch.name, orDiff(e, got, want)),
						map[string]any{"base": base.name, "chunker": ch.name})
				}
				dk["chunk|"+base.name+"|"+ch.name] = struct{}{}
			}
			*sample = fmt.Sprintf("%s (%d bytes) through %d chunking readers: same parse", base.name, len(base.src), len(chunkers))
		})
	}
	// (4) the same long-token programs as script files: ReadFile+RunSource (what `pangaea file` does) and RunTest
	// on a directory (what `pangaea test dir` does) must print what the program prints when its bytes are
	// evaluated in process
	tmpRoot := os.Getenv("VERIF_TMP")
	if tmpRoot == "" {
		tmpRoot = os.TempDir()
	}
	for _, tk := range []string{"string", "raw-string", "comment", "identifier", "symbol", "embedded-piece", "many-tokens-one-line", "many-short-lines", "crlf", "raw-string-with-crlf", "multibyte-comment", "multibyte-string"} {
		tk := tk
		runBatch("script file "+tk, func(vs *violSet, dk map[string]struct{}, counters map[string]int, sample *string) {
			if ip == nil {
				ip = interp.New()
			}
			dir, err := os.MkdirTemp(tmpRoot, "c16file")
			if err != nil {
				panic("C16 harness: " + err.Error())
			}
			defer os.RemoveAll(dir)
			sizes := []int{100, 4095, 4096, 4097, 65535, 65536, 65537, 70000, 131072, 200000}
			if strings.HasPrefix(tk, "multibyte") {
				// multi-byte characters placed so that each of their bytes falls on 512 / 1024 / 4096 / 65536 in turn
				sizes = nil
				for _, edge := range []int{512, 1024, 4096, 65536} {
					for d := -14; d <= 2; d++ {
						sizes = append(sizes, edge+d)
					}
				}
			}
			for _, L := range sizes {
				body := strings.Repeat("a", L)
				var lines []string
				switch tk {
				case "string":
					lines = []string{`s := "` + body + `"`, "s.len.p"}
				case "raw-string":
					lines = []string{"s := `" + body + "`", "s.len.p"}
				case "comment":
					lines = []string{"# " + body, `"after comment".p`}
				case "identifier":
					lines = []string{"v" + body + " := 7", "v" + body + ".p"}
				case "symbol":
					lines = []string{"s := '" + body, "s.len.p"}
				case "embedded-piece":
					lines = []string{`s := "#{1}` + body + `#{2}"`, "s.len.p"}
				case "many-tokens-one-line":
					if L > 70000 {
						continue // every token keeps a copy of its (whole) line: memory grows with tokens × line length
					}
					// (elements of 100 bytes: the parser's cost grows quadratically with the element count, which is not this property's subject)
					lines = []string{"s := [" + strings.Repeat(`"`+strings.Repeat("e", 96)+`", `, L/100) + "1]", "s.len.p"}
				case "many-short-lines":
					lines = []string{"s := 0"}
					for i := 0; i < L/7; i++ {
						lines = append(lines, "s += 1")
					}
					lines = append(lines, "s.p")
				case "crlf":
					lines = []string{`s := "` + body + `"`, "s.len.p", "[1,", " 2].p"}
				case "raw-string-with-crlf":
					// a raw string keeps the bytes between its quotes, line ends included, whichever entry point reads the file
					lines = []string{"s := `" + body[:L/2] + "\r\nb\rc\nd`", "s.len.p", "s[-8:].repr.p"}
				case "multibyte-comment":
					lines = []string{"# " + body[:L-10] + "日本語のコメント", `"after comment".p`}
				case "multibyte-string":
					lines = []string{"# " + body[:L-16], `s := "é日本語ü"`, "s.len.p"}
				}
				sep := "\n"
				if tk == "crlf" || tk == "raw-string-with-crlf" {
					sep = "\r\n"
				}
				src := `"start".p` + sep + strings.Join(lines, sep) + sep + `"end".p` + sep
				ref := ip.Run(src, interp.Options{FileName: "ref"})
				if !ref.OK() && tk != "crlf" {
					panic("C16 harness: script-file base program does not evaluate: " + tk + " " + ref.Outcome() + firstLine(ref.ParseErr))
				}
				wantCode := 0
				if !ref.OK() {
					wantCode = 1
				}
				file := filepath.Join(dir, "prog.pangaea")
				if err := os.WriteFile(file, []byte(src), 0o644); err != nil {
					panic("C16 harness: " + err.Error())
				}
				w.Note(fmt.Sprintf("script file %s L=%d", tk, L))
				// pangaea <file>
				read, rc := runscript.ReadFile(file)
				var out bytes.Buffer
				code := rc
				if rc == 0 {
					code = runscript.RunSource(read, file, strings.NewReader(""), &out)
				}
				counters["script_file_runs"]++
				if out.String() != ref.Stdout || code != wantCode {
					vs.add(fmt.Sprintf("C16|script-file|%s|size:%s", tk, sizeClass(L)),
						fmt.Sprintf("%s token of length %d in a script file: `pangaea file` printed %s (exit %d), the same bytes evaluated in process print %s (exit %d)",
							tk, L, truncateMid(fmt.Sprintf("%q", out.String()), 160), code, truncateMid(fmt.Sprintf("%q", ref.Stdout), 160), wantCode),
						map[string]any{"token": tk, "length": L, "entry": "file"})
				}
				// pangaea test <dir>
				var tout bytes.Buffer
				tcode := runscript.RunTest(dir, strings.NewReader(""), &tout)
				counters["script_file_runs"]++
				wantT := "run:  " + file + "\n" + ref.Stdout
				if wantCode == 0 {
					wantT += "pass: " + file + "\n"
				}
				if tout.String() != wantT || tcode != wantCode {
					vs.add(fmt.Sprintf("C16|test-dir|%s|size:%s", tk, sizeClass(L)),
						fmt.Sprintf("%s token of length %d in a test file: `pangaea test dir` printed %s (exit %d), expected %s (exit %d)",
							tk, L, truncateMid(fmt.Sprintf("%q", tout.String()), 160), tcode, truncateMid(fmt.Sprintf("%q", wantT), 160), wantCode),
						map[string]any{"token": tk, "length": L, "entry": "test-dir"})
				}
				// the same file loaded as a module: import / invite! evaluate its bytes like any other entry point
				if wantCode == 0 && (L <= 4097 || strings.HasPrefix(tk, "multibyte")) {
					for _, how := range []string{"import", "invite!"} {
						mainFile := filepath.Join(dir, "main.txt")
						mainSrc := how + "(\"./prog\")\n\"loaded\".p\n"
						os.WriteFile(mainFile, []byte(mainSrc), 0o644)
						var mout bytes.Buffer
						mcode := runscript.RunSource(mainSrc, mainFile, strings.NewReader(""), &mout)
						counters["script_file_runs"]++
						if mout.String() != ref.Stdout+"loaded\n" || mcode != 0 {
							vs.add(fmt.Sprintf("C16|module-%s|%s|size:%s", how, tk, sizeClass(L)),
								fmt.Sprintf("%s token at offset %d in a module: a script doing %s(\"./prog\") printed %s (exit %d), the same bytes evaluated in process print %s",
									tk, L, how, truncateMid(fmt.Sprintf("%q", mout.String()), 200), mcode, truncateMid(fmt.Sprintf("%q", ref.Stdout+"loaded\n"), 160)),
								map[string]any{"token": tk, "length": L, "entry": how})
						}
					}
				}
				dk[fmt.Sprintf("file|%s|%d", tk, L)] = struct{}{}
			}
			*sample = fmt.Sprintf("script files with %s of 100…200000 bytes: file and test-dir entry points print what the bytes print in process", tk)
		})
	}
	// (5) the REPL entry point: the same session bytes give the same transcript however the reader splits them
	// (LF and CRLF sessions, multi-line blocks, a line end falling on 1 KiB … 64 KiB offsets)
	for _, eol := range []string{"\n", "\r\n"} {
		eol := eol
		runBatch(fmt.Sprintf("REPL session chunking eol=%q", eol), func(vs *violSet, dk map[string]struct{}, counters map[string]int, sample *string) {
			rng := w.Rand()
			for _, padTo := range []int{0, 1023, 1024, 2047, 2048, 4094, 4095, 4096, 8191, 65535} {
				lines := []string{"multi", "xs := [1,", "  2,", "  3]", "xs.sum.p", "", "single"}
				if padTo > 0 {
					// a comment pads the first line so that its end falls at byte offset padTo
					first := "1 + 1 #"
					first += strings.Repeat("p", max(0, padTo-len(first)))
					lines = append([]string{first}, lines...)
				}
				lines = append(lines, "'done.p", "[1, 2]@{|x| x * 2}", "")
				session := strings.Join(lines, eol)
				transcript := func(r io.Reader) string {
					var out bytes.Buffer
					runscript.StartREPL("", r, &out)
					return out.String()
				}
				want := transcript(strings.NewReader(session))
				if !strings.Contains(want, "6") || !strings.Contains(want, "done") || !strings.Contains(want, "[2, 4]") {
					vs.add("C16|repl|session-not-evaluated", fmt.Sprintf("REPL session (eol %q, pad %d) read in one piece does not evaluate its lines: %s", eol, padTo, truncateMid(want, 300)), map[string]any{"eol": eol, "pad": padTo})
					continue
				}
				for _, ch := range chunkers {
					got := transcript(ch.mk(session, rng))
					counters["repl_chunking_variants"]++
					if got != want {
						vs.add("C16|repl-chunking|"+ch.name, fmt.Sprintf("REPL session (eol %q, first line end at %d) read through %s: transcript differs from the one-piece read\n got: %s\nwant: %s", eol, padTo, ch.name, truncateMid(got, 300), truncateMid(want, 300)),
							map[string]any{"eol": eol, "pad": padTo, "chunker": ch.name})
					}
					dk[fmt.Sprintf("repl|%q|%d|%s", eol, padTo, ch.name)] = struct{}{}
				}
			}
			*sample = fmt.Sprintf("REPL sessions (eol %q) through %d chunking readers: same transcript", eol, len(chunkers))
		})
	}
	_ = object.BuiltInNil
}

func sizeClass(n int) string {
	switch {
	case n < 1000:
		return "lt1000"
	case n < 2100:
		return "1000-2100"
	case n < 4200:
		return "2100-4200"
	}
	return "ge4200"
}

func c16siteClass(tmpl string, site int) string {
	// classify a break site by the character before it
	idx := -1
	pos := 0
	for i := 0; i <= site; i++ {
		j := strings.Index(tmpl[pos:], nlMark)
		if j < 0 {
			return "?"
		}
		idx = pos + j
		pos = idx + 1
	}
	if idx == 0 {
		return "program-start"
	}
	prev := strings.TrimRight(tmpl[:idx], " ")
	next := strings.TrimLeft(tmpl[idx+1:], " ")
	switch {
	case strings.HasPrefix(next, "|"):
		return "multiline-chain"
	case strings.HasSuffix(prev, ","):
		return "after-comma"
	case strings.HasSuffix(prev, "|"):
		return "after-params"
	case strings.HasSuffix(prev, "{") || strings.HasSuffix(prev, "(") || strings.HasSuffix(prev, "["):
		return "after-open-bracket"
	case strings.HasPrefix(next, "}") || strings.HasPrefix(next, ")") || strings.HasPrefix(next, "]"):
		return "before-close-bracket"
	}
	return "between-statements"
}

func orDiff(e, got, want string) string {
	if e != "" {
		return e
	}
	// first difference
	i := 0
	for i < len(got) && i < len(want) && got[i] == want[i] {
		i++
	}
	lo := i - 30
	if lo < 0 {
		lo = 0
	}
	cut := func(s string) string {
		hi := i + 50
		if hi > len(s) {
			hi = len(s)
		}
		if lo > len(s) {
			return ""
		}
		return s[lo:hi]
	}
	return fmt.Sprintf("parse differs at byte %d: got …%q… want …%q…", i, cut(got), cut(want))
}
