package props

import (
	"bytes"
	"encoding/json"
	"fmt"
	"math/rand"
	"net"
	"net/http"
	"os"
	"os/exec"
	"path/filepath"
	"sort"
	"strings"

	"github.com/Syuparn/pangaea/object"
	"github.com/Syuparn/pangaea/runscript"

	"verif/fw"
	"verif/interp"
	"verif/walk"
)

// C19 — a fresh evaluation is independent of what the process evaluated before.
// Oracle: differential across processes (fresh-process observation of B vs. B after a
// history H in a used interpreter) + structural monitor over the built-in objects.

// ObsJSON is the boundary observation exchanged with the fresh process.
type ObsJSON struct {
	ParseErr string `json:"parse_err"`
	Stdout   string `json:"stdout"`
	Inspect  string `json:"inspect"`
	ErrKind  string `json:"err_kind"`
	ErrMsg   string `json:"err_msg"`
	Stack    string `json:"stack"`
	Panic    string `json:"panic"`
	Cutoff   string `json:"cutoff"`
}

func toObsJSON(o *interp.Obs) ObsJSON {
	return ObsJSON{ParseErr: o.ParseErr, Stdout: o.Stdout, Inspect: o.Inspect, ErrKind: o.ErrKind, ErrMsg: o.ErrMsg, Stack: o.Stack, Panic: o.Panic, Cutoff: o.Cutoff}
}

// DebugRunOne evaluates the program in file in a newly started interpreter and prints the observation.
func DebugRunOne(file string) {
	b, err := os.ReadFile(file)
	if err != nil {
		fmt.Println(`{"panic":"cannot read"}`)
		return
	}
	ip := interp.New()
	o := ip.Run(string(b), interp.Options{FileName: "<c19>", Stdin: strings.NewReader("in1\nin2\n")})
	out, _ := json.Marshal(toObsJSON(o))
	os.Stdout.Write(out)
}

// c19libRel: path (relative to the working directory, starting with "./") of a directory holding ticket.pangaea.
var c19libRel = ""

// c19setupLib writes the module file once per process (idempotent; the same content every time).
func c19setupLib() {
	tmp := os.Getenv("VERIF_TMP")
	if tmp == "" {
		tmp = os.TempDir()
	}
	// one directory per worker process: no other process rewrites a file while it is being imported
	dir := filepath.Join(tmp, fmt.Sprintf("c19lib-%d", os.Getpid()))
	os.MkdirAll(dir, 0o755)
	os.WriteFile(filepath.Join(dir, "ticket.pangaea"), []byte("\"ticket module loaded\".p\ntickets := <{|i| yield i; recur(i + 1)}>.new(1)\nloadedAt := 'start\n"), 0o644)
	cwd, err := os.Getwd()
	if err != nil {
		return
	}
	rel, err := filepath.Rel(cwd, dir)
	if err != nil {
		return
	}
	if !strings.HasPrefix(rel, ".") {
		rel = "./" + rel
	}
	c19libRel = rel
}

var c19errKinds = []string{"Err", "AssertionErr", "NameErr", "NoPropErr", "NotImplementedErr", "StopIterErr", "SyntaxErr", "TypeErr", "ValueErr", "ZeroDivisionErr", "FileNotFoundErr"}

// programs that touch shared things; they are deterministic by construction (no hash-ordered output).
func c19program(rng *rand.Rand, names []string) string {
	n := func() string { return names[rng.Intn(len(names))] }
	k := c19errKinds[rng.Intn(len(c19errKinds))]
	protos := []string{"Int", "Str", "Arr", "Obj", "Kernel", "JSON", "Map", "Either", "Iterable", "Nil", "Err"}
	switch rng.Intn(40) {
	case 36:
		// a property defined on a child of a scalar prototype and used on an instance of it: plain scalars never get it
		nm := []string{"lab_shared", "lab_" + n()}[rng.Intn(2)]
		return fmt.Sprintf("SS := Str.bear({%s: m{\"tag:\" + self}}); II := Int.bear({%s: m{self * 100}}); FF := Float.bear({%s: m{self}})\n[SS.new(\"a\").%s, II.new(5).%s, FF.new(1.5).%s].p", nm, nm, nm, nm, nm, nm)
	case 37:
		nm := []string{"lab_shared", "lab_shared", "lab_" + n()}[rng.Intn(3)]
		return fmt.Sprintf("[\"a\".try.%s.err.type, 5.try.%s.err.type, 1.5.try.%s.err.type, nil.try.%s.err.type, true.try.%s.err.type].p\n5.%s", nm, nm, nm, nm, nm, nm)
	case 38:
		// thoughtful chains whose last element fails or yields nil (literal, variable and property forms), in a successful program
		return []string{"[2, 'a, 3, 'b]~$(1){|acc, x| acc * x}.p", "[2, nil]~$(1)*.p", "mul := {|acc, x| acc * x}\n[2, 3, 'z]~$(1)^mul.p",
			"[1, 'q]~@{|x| x + 1}.p", "['q]~@+(1).p", "'q~.+(1).p", "[2, nil, 3, nil]~$(1){|acc, x| acc * x}.p\n[1]~@{|x| nil}.p"}[rng.Intn(7)]
	case 39:
		// an uncaught error two calls deep: its report lists every position
		return fmt.Sprintf("area := {|o| o.width * o.height}\nshow := {|o| area(o).p}\nshow({width: %d})", 2+rng.Intn(5))
	case 34:
		// many calls that end in an error, all handled: nothing of them is left for later programs
		return "chk := {|n| raise ValueErr.new(\"gave up\") if n == 0; chk(n - 1)}\n(1:41)@{|i| i.try.{chk(250)}.err?}.len.p"
	case 35:
		// plain deep recursion
		return fmt.Sprintf("dp := {|n| 0 if n == 0 else dp(n - 1) + 1}\ndp(%d).p", 1200+rng.Intn(400))
	case 32, 33:
		// a module file with a load-time effect and exported state, imported / invited by relative path: every
		// program that imports it loads it for itself
		if c19libRel == "" {
			return "1.p"
		}
		return []string{
			"t := import(\"" + c19libRel + "/ticket\")\nt.tickets.next.p\nt.tickets.next.p",
			"invite!(\"" + c19libRel + "/ticket\")\ntickets.next.p",
			"f := {|| import(\"" + c19libRel + "/ticket\").tickets.next}\n[f(), f()].p",
			"t := import(\"" + c19libRel + "/ticket\")\nu := import(\"" + c19libRel + "/ticket\")\n[t.tickets.next, u.tickets.next, t.loadedAt].p",
		}[rng.Intn(4)]
	case 30:
		// modules: names brought in by invite!/import belong to the scope that asked for them
		return []string{"setup := {|| invite!(\"dummy\")}\nsetup()\n1.p", "invite!(\"dummy\")\nmessage.p", "m := import(\"dummy\")\nm.message.p",
			"{|| m := import(\"dummy\"); m.keys}()", "[1]@{|x| invite!(\"dummy\"); message}", "o := {f: m{invite!(\"dummy\")}}\no.f\n'done.p",
			"1.try.fmap {|x| invite!(\"dummy\")}.err.p", "f := {|| g := {|| invite!(\"dummy\")}; g(); message}\nf().p"}[rng.Intn(8)]
	case 31:
		return []string{"message.p", "[message]", "message", "'message.evalEnv"}[rng.Intn(4)]
	case 29:
		// the shared `_` object taken out of a prototype as a plain value (no property call, no indexing of
		// the prototype itself) and raised afterwards
		e := []string{"Obj.callProp(Either, 'val)", "Either.values[0]", "Either.items[0][1]", "Either.values._iter.next", "Either._iter.next[1]",
			"{|x| x}(Either.values[0])", "Either.values@{|x| x}", "%{1: Either.values}[1][0]", "{|x| \\_.val}(**Either)", "Either.values.A[1]",
			"Either.values@first", "Either.values.exclude {|v| v == 1}"}[rng.Intn(12)]
		return strings.Repeat("\n", rng.Intn(3)) + "1.try.fmap {|x| " + e + "}.err.type.p\n" + e
	case 20:
		// two ** expansions whose first operand is a shared built-in object
		return fmt.Sprintf("\"a\".p(**%s, **{leak_%s: 42})", protos[rng.Intn(len(protos))], n())
	case 21:
		return fmt.Sprintf("{|x| \\_.keys.len}(1, **%s, **{leak2_%s: 1}).p", protos[rng.Intn(len(protos))], n())
	case 22:
		return fmt.Sprintf("[1.try.leak_%s.err.type == NoPropErr, \"\".try.leak_%s.err.type == NoPropErr, [].try.leak2_%s.err.type == NoPropErr]", n(), n(), n())
	case 23:
		// built-in iterators driven past their end: the stop error must be fresh every time
		src := []string{"[1]", "{a: 1}", "%{1: 2}", "\"ab\"", "(1:2)", "2"}[rng.Intn(6)]
		return "it := " + src + "._iter\nit.next\nit.try.next\nit.try.next\nit.next\nit.next"
	case 24:
		return "[1, 2].lazyMap {|x| x * 2}.A.p\n[3, 4].withI.A.p\n[[1], [2]].zip([3]).A.p\n[]._iter.next"
	case 25:
		return "assertRaises(StopIterErr, \"iter stopped\") {[]._iter.next}\n[5].while {|x| x < 9}.A.p\n[7]._iter.{|i| i.next; i.next}"
	case 26:
		return fmt.Sprintf("[1.leak_%s]", n())
	case 28:
		// abstract props reached through indexing instead of a property call
		return []string{"Either['A]", "Either.at(['fmap])", "Either['val]\n1.p", "e := Either\ne['or]", "[Either['err]]"}[rng.Intn(5)]
	case 27:
		return "Int.keys(private?: true).len.p; Kernel.keys.len.p; JSON.keys.p; Either.keys(private?: true).p"
	case 0:
		return "1.p\n_"
	case 1:
		return "f := {|x| _}\n\"before\".p\nf(1)"
	case 2:
		return "o := {m: m{|a| _}}\n\n\no.m(2)"
	case 3:
		return "Either.val"
	case 4:
		return "Either.fmap\n'unreached.p"
	case 5:
		return "x := 1.try\nEither.or"
	case 6:
		return "raise " + k + ".new(\"boom " + n() + "\")"
	case 7:
		return "g := {|d| raise " + k + ".new(\"m\") if d == 0; g(d - 1)}\ng(3)"
	case 8:
		return n() + " := " + fmt.Sprint(rng.Intn(100)) + "\n" + n() + "_2 := [" + n() + "]\n" + n()
	case 9:
		return n() + ".p"
	case 10:
		return "[" + n() + ", 1]"
	case 11:
		return "\"" + n() + " := 5; zz := 6\".evalEnv.keys"
	case 12:
		return "it := [1, 2, 3]._iter\nit.next.p\nit.next.p\nit.next"
	case 13:
		return "gen := <{|i| yield i if i < 2; recur(i + 1)}>\ng := gen.new(0)\ng.next.p; g.next.p\ng.next"
	case 14:
		return "1 +* 2 )(" // parse failure
	case 15:
		return "[Int, Str, Arr, Obj, Map, Range, Func, Iter, Nil, Float, Num, Either, Err, Kernel, JSON]@{|p| p._name}.p\nInt.keys.len.p; Obj.keys.len.p; BaseObj.keys.p"
	case 16:
		return "1 / 0"
	case 17:
		return "nil.nope(1)"
	case 18:
		return "<>.next.p\n[1, 2]@{|x| x * 2}.p\n{a: 1}.a.p\n" + n() + "_z := 3\n" + n() + "_z + unknown_" + n()
	default:
		return "_.try.err.type.p\n(1.try./(0)).err.p\nraise 1.try./(0).err"
	}
}

func c19corpusPrograms() []string {
	var files []string
	for _, pat := range []string{"/repo/tests/*.pangaea", "/repo/example/*.pangaea"} {
		m, _ := filepath.Glob(pat)
		files = append(files, m...)
	}
	sort.Strings(files)
	var out []string
	for _, f := range files {
		b, err := os.ReadFile(f)
		if err != nil || bytes.Contains(b, []byte("http")) || bytes.Contains(b, []byte("import")) || bytes.Contains(b, []byte("invite")) ||
			bytes.Contains(b, []byte("read(")) || bytes.Contains(b, []byte("argv")) || len(b) > 6000 {
			continue
		}
		out = append(out, string(b))
	}
	return out
}

func freshObs(self, dir, src string, idx int) (ObsJSON, ObsJSON, error) {
	f := filepath.Join(dir, fmt.Sprintf("b%d.pangaea", idx))
	os.WriteFile(f, []byte(src), 0o644)
	defer os.Remove(f)
	var res [2]ObsJSON
	for i := 0; i < 2; i++ {
		out, err := exec.Command(self, "debug", "runone", f).Output()
		if err != nil {
			return res[0], res[1], err
		}
		if err := json.Unmarshal(out, &res[i]); err != nil {
			return res[0], res[1], err
		}
	}
	return res[0], res[1], nil
}

func init() {
	fw.Register(&fw.Prop{
		ID:    "C19",
		Level: "exploration",
		Rule: "B programs (generated to touch shared things: raise `_` at different lines, abstract Either props, every built-in error kind, recursion traces, variables named like the history's, evalEnv, built-in iterators, parse failures, prototype listings, stdin; plus corpus programs) are observed in a newly started process (twice) and then, in a long-lived interpreter, in a fresh scope after each of several histories H of 1–8 such programs (incl. failing ones): stdout, value, error kind/message and stack trace must be byte-identical. " +
			"After every program of H a structural monitor compares every object reachable from the const env (prototype tables, key lists, protos, error state incl. stack trace of `_`) with its start-up fingerprint, and names defined by H must be undefined in a fresh scope. " +
			"`pangaea test` directories: RunTest(dir) must equal the concatenation of RunSource(file) of each file alone. distinct = distinct (B, history) pairs compared + directories; non-trivial = H contained ≥1 program and B was deterministic across the two fresh processes" +
			" Added: the shared `_` object taken out of prototypes as a plain value, standard-module invite!/import inside functions, a module file with load-time effect imported by relative path, programs with 10 000 handled failing calls followed by deep recursion. Sixth round: names first used in another order by an earlier program, then == over containers whose elements' == prints.",
		Assumptions: []string{
			"the playground discipline (one const env, NewEnclosedEnv + InjectIO per program) is transcribed from web/wasm/executor.go, which cannot be built natively",
			"B programs are deterministic by construction; a B whose two fresh-process observations differ is inconclusive (that is C08's subject)",
		},
		Floor: func(m *fw.Merged) string {
			if m.Counters["B_with_fresh_baseline"] < 100 || m.Counters["pairs_compared"] < 500 || m.Counters["runtest_dirs"] < 20 {
				return fmt.Sprintf("observed too little: %v", m.Counters)
			}
			return ""
		},
		Run: runC19,
	})
}

func runC19(w *fw.W) {
	self, _ := os.Executable()
	tmp := os.Getenv("VERIF_TMP")
	var ip *interp.Interp
	var snap *walk.Snapshot
	var constNames string
	constKeys := func() string {
		var ks []string
		for h := range ip.Const.Store {
			if s, ok := object.SymHash2Str(h); ok {
				ks = append(ks, s.(*object.PanStr).Value)
			}
		}
		sort.Strings(ks)
		return strings.Join(ks, ",")
	}
	setup := func() {
		if ip != nil {
			return
		}
		walk.IncludeStack = true
		c19setupLib()
		ip = interp.New()
		snap = walk.New()
		snap.WalkEnv(ip.Const, nil)
		snap.Walk(object.BuiltInNotImplemented)
		constNames = constKeys()
	}
	corpus := c19corpusPrograms()
	names := []string{"alpha", "beta", "x", "acc", "users", "f", "gamma_1", "it"}
	nB := w.Pick(160, 1600)
	nH := w.Pick(16, 60)
	for bi := 0; bi < nB; bi++ {
		if !w.Take() {
			continue
		}
		setup()
		rng := w.Rand()
		var B string
		if bi%4 == 3 && len(corpus) > 0 {
			B = corpus[rng.Intn(len(corpus))]
		} else {
			B = c19program(rng, names)
		}
		w.Begin(fmt.Sprintf("B %d", bi), map[string]any{"B": B})
		f1, f2, err := freshObs(self, tmp, B, bi)
		if err != nil {
			w.End(fw.Result{Verdict: fw.Inconclusive, Reason: "fresh-process-failed"})
			continue
		}
		if f1 != f2 {
			w.End(fw.Result{Verdict: fw.Inconclusive, Reason: "B-nondeterministic"})
			continue
		}
		var vs violSet
		dk := map[string]struct{}{}
		pairs, hprogs := 0, 0
		checkBuiltins := func(after string, hist []string) {
			for _, ch := range snap.Diff() {
				what := familyOf(ch.Obj)
				if pe, ok := ch.Obj.(*object.PanErr); ok {
					what = "error-object:" + pe.Kind()
				}
				vs.add("C19|builtin-state-changed|"+what, fmt.Sprintf("after program %q a built-in object differs from start-up\n  before: %s\n  after:  %s", truncateMid(after, 200), truncateMid(ch.Before, 300), truncateMid(ch.After, 300)),
					map[string]any{"history": hist})
			}
			if len(vs.list) > 0 {
				snap.Refresh()
			}
			if now := constKeys(); now != constNames {
				vs.add("C19|const-env-names-changed", fmt.Sprintf("after %q the const env has different names", truncateMid(after, 200)), map[string]any{"history": hist})
				constNames = now
			}
		}
		for h := 0; h < nH; h++ {
			var hist []string
			var defined []string
			for k := 1 + rng.Intn(8); k > 0; k-- {
				var p string
				if rng.Intn(5) == 0 && len(corpus) > 0 {
					p = corpus[rng.Intn(len(corpus))]
				} else {
					p = c19program(rng, names)
				}
				if rng.Intn(3) == 0 {
					v := fmt.Sprintf("hv_%d_%d", bi, rng.Intn(1000))
					p = v + " := 1\n" + p
					defined = append(defined, v)
				}
				hist = append(hist, p)
				w.Note(map[string]any{"history": hist})
				ip.Run(p, interp.Options{FileName: "<c19>", Stdin: strings.NewReader("h1\nh2\n")})
				hprogs++
				checkBuiltins(p, hist)
			}
			o := ip.Run(B, interp.Options{FileName: "<c19>", Stdin: strings.NewReader("in1\nin2\n")})
			got := toObsJSON(o)
			pairs++
			if got != f1 {
				field, a, b := diffObs(got, f1)
				vs.add("C19|differs-from-fresh-process|"+field, fmt.Sprintf("program B:\n%s\nafter a history of %d programs its %s is\n%s\nin a newly started process it is\n%s\nlast history program:\n%s",
					truncateMid(B, 400), len(hist), field, truncateMid(a, 600), truncateMid(b, 600), truncateMid(hist[len(hist)-1], 300)), map[string]any{"B": B, "history": hist})
			}
			checkBuiltins(B, append(hist, B))
			for _, v := range defined {
				o := ip.Run(v, interp.Options{FileName: "<c19>"})
				if o.ErrKind != "NameErr" {
					vs.add("C19|variable-leaks-into-fresh-scope", fmt.Sprintf("%s defined by an earlier program is visible in a fresh scope: %s", v, o.Outcome()), map[string]any{"history": hist})
				}
			}
			dk[fmt.Sprintf("B%d|H%d", bi, h)] = struct{}{}
		}
		r := fw.Result{Verdict: fw.Held, Evals: pairs + hprogs, Counters: map[string]int{"B_with_fresh_baseline": 1, "pairs_compared": pairs, "history_programs": hprogs, "fresh_processes": 2}}
		for k := range dk {
			r.DKeys = append(r.DKeys, k)
		}
		if bi%10 == 0 {
			r.Sample = map[string]any{"B": truncateMid(B, 200), "fresh_process": truncateMid(f1.Stdout+" | "+f1.Inspect+" | "+f1.ErrKind+": "+f1.ErrMsg+" | "+f1.Stack, 300), "histories": nH}
		}
		vs.finish(&r)
		w.End(r)
	}

	// paired scenarios: an earlier program and a later one that would meet through process-wide state if there were
	// any (same property name on a scalar's child / on a plain scalar, module loads, failing calls then deep recursion,
	// thoughtful chains ending in a failure then an uncaught error, names and stack traces); every scenario is run in
	// every round, not left to the draw
	{
		c19setupLib()
		lib := c19libRel
		scenarios := []struct {
			name string
			hist []string
			b    string
		}{
			{"prop of a scalar's child, then the same name on plain scalars",
				[]string{"SS := Str.bear({lab_pair: m{\"tag:\" + self}}); II := Int.bear({lab_pair: m{self * 100}})\n[SS.new(\"a\").lab_pair, II.new(5).lab_pair, nil.try.lab_pair.err.type].p"},
				"[\"a\".try.lab_pair.err.type, 5.try.lab_pair.err.type].p\n5.lab_pair"},
			{"thoughtful chains ending in a failure, then an uncaught error two calls deep",
				[]string{"[2, 'a, 3, 'b]~$(1){|acc, x| acc * x}.p", "mul := {|acc, x| acc * x}\n[2, 3, 'z]~$(1)^mul.p\n[2, nil]~$(1)*.p\n[1, 'q]~@{|x| x + 1}.p\n'q~.+(1).p"},
				"area := {|o| o.width * o.height}\nshow := {|o| area(o).p}\nshow({width: 3})"},
			{"handled failing calls, then deep recursion",
				[]string{"chk := {|n| raise ValueErr.new(\"gave up\") if n == 0; chk(n - 1)}\n(1:41)@{|i| i.try.{chk(250)}.err?}.len.p"},
				"dp := {|n| 0 if n == 0 else dp(n - 1) + 1}\ndp(1500).p"},
			{"module imported by relative path twice",
				[]string{"t := import(\"" + lib + "/ticket\")\nt.tickets.next.p\nt.tickets.next.p"},
				"t := import(\"" + lib + "/ticket\")\nt.tickets.next.p"},
			{"standard module invited inside a function",
				[]string{"setup := {|| invite!(\"dummy\")}\nsetup()\n1.p"}, "message.p"},
			{"the shared _ object raised after being taken out as a value",
				[]string{"1.try.fmap {|x| Either.values[0]}.err.type.p", "1.try.fmap {|x| Obj.callProp(Either, 'val)}.err.type.p"}, "\n\nEither.values[0]"},
			{"variables and functions of an earlier program",
				[]string{"pair_v := 41\npair_f := {|x| x + pair_v}\npair_f(1).p"}, "pair_f(1).p"},
			{"iterators driven past their end, then an uncaught StopIterErr",
				[]string{"it := [1]._iter\nit.next\nit.try.next\nit.try.next", "[]._iter.try.next.err.p"}, "it2 := [7]._iter\nit2.next.p\nit2.next"},
			{"many positional arguments, then the same arity again",
				[]string{"{[\\9, \\12, \\0.len]}(1, 2, 3, 4, 5, 6, 7, 8, 9, 10, 11, 12).p"}, "{[\\9, \\12, \\0.len]}(1, 2, 3, 4, 5, 6, 7, 8, 9, 10, 11, 12).p\n{[\\13]}(1, 2, 3, 4, 5, 6, 7, 8, 9, 10, 11, 12)"},
			{"the same text matched on a plain str, then on a value of a Str descendant (and back)",
				[]string{"\"2020-01-02\".match(`(\\d+)-(\\d+)`).p\n\"ab\".sub(`a`, \"x\").p\n(\"a,b\" / \",\").p"},
				"D := Str.bear({era: m{\"era:\" + self}})\ng := D.new(\"2020-01-02\").match(`(\\d+)-(\\d+)`)\n[g[1].era, D.new(\"ab\").sub(`a`, \"x\").era, (D.new(\"a,b\") / \",\")[0].era].p\n\"2020-01-02\".match(`(\\d+)-(\\d+)`)[1].era"},
			{"conversions and arithmetic on a descendant, then on plain values",
				[]string{"DI := Int.bear({tag: m{\"i\"}})\nd := DI.new(5)\n[(d + 1).tag, (d * 2).tag, d.S, d.F, -d].p\nDS := Str.bear({tag: m{\"s\"}})\n[(DS.new(\"a\") + \"b\").tag, DS.new(\"a\").uc.tag, DS.new(\"ab\").rev.tag].p"},
				"[(5 + 1).try.tag.err.type, (5 * 2).try.tag.err.type, (\"a\" + \"b\").try.tag.err.type, \"a\".uc.try.tag.err.type].p\n\"ab\".rev.tag"},
			{"names first used in another order, then == over containers whose elements' own == prints",
				[]string{"{qzeta_w: 1, qalpha_w: 2, qmid_w: 3}.p\n%{\"qz2\": 1, \"qa2\": 2}.p\n['qomega_w, 'qbeta_w].p", "{qomega_w: 0}.qbeta_w"},
				"T := {'==: m{|o| .n.p; true}}\nU := {'==: m{|o| .n.p; .n != 3}}\nx := {qalpha_w: T.bear({n: 1}), qmid_w: T.bear({n: 2}), qzeta_w: T.bear({n: 3}), qbeta_w: T.bear({n: 4}), qomega_w: T.bear({n: 5})}\n(x == {**x}).p\n" +
					"m := %{\"qa2\": T.bear({n: 6}), \"qz2\": T.bear({n: 7})}\n(m == %{**m}).p\nu := {qalpha_w: U.bear({n: 1}), qmid_w: U.bear({n: 2}), qzeta_w: U.bear({n: 3}), qbeta_w: U.bear({n: 4}), qomega_w: U.bear({n: 5})}\n(u == {**u}).p\n[x.keys, u.S.len, m.keys].p"},
			{"a function literal with a default evaluated twice in different scopes",
				[]string{"mk := {|g| {|nm, hello: g| hello + nm}}\nmk(\"Hi \")(\"A\").p"}, "mk := {|g| {|nm, hello: g| hello + nm}}\nmk(\"Yo \")(\"B\").p"},
		}
		// a server (in this process) that sets a cookie on /login and reports the cookie it receives on /whoami:
		// what an earlier program's requests were answered with does not travel with a later program's requests
		if ln, err := net.Listen("tcp", "127.0.0.1:0"); err == nil {
			mux := http.NewServeMux()
			mux.HandleFunc("/login", func(rw http.ResponseWriter, r *http.Request) {
				http.SetCookie(rw, &http.Cookie{Name: "sid", Value: "alice", Path: "/"})
				rw.Header().Set("X-Seen", "1")
				fmt.Fprint(rw, "welcome")
			})
			mux.HandleFunc("/whoami", func(rw http.ResponseWriter, r *http.Request) {
				if c, err := r.Cookie("sid"); err == nil {
					fmt.Fprint(rw, "logged in as "+c.Value)
					return
				}
				fmt.Fprint(rw, "anonymous")
			})
			srv := &http.Server{Handler: mux}
			go srv.Serve(ln)
			defer srv.Close()
			base := "http://" + ln.Addr().String()
			scenarios = append(scenarios, struct {
				name string
				hist []string
				b    string
			}{"requests of an earlier program, then a request of a later one to the same host",
				[]string{"invite!(\"http\")\nr := C.get(\"" + base + "/login\")\n[r.status, r.body].p\nC.get(\"" + base + "/whoami\").body.p"},
				"invite!(\"http\")\nC.get(\"" + base + "/whoami\").body.p"})
		} else {
			// (keeps the case numbering the same in every worker)
			scenarios = append(scenarios, struct {
				name string
				hist []string
				b    string
			}{"http scenario skipped: no loopback listener", nil, "1.p"})
		}
		for si, sc := range scenarios {
			if !w.Take() {
				continue
			}
			setup()
			w.Begin("paired scenario: "+sc.name, map[string]any{"scenario": sc.name})
			var vs violSet
			f1, f2, err := freshObs(self, tmp, sc.b, 100000+si)
			switch {
			case err != nil:
				w.End(fw.Result{Verdict: fw.Inconclusive, Reason: "fresh-process-failed"})
				continue
			case f1 != f2:
				w.End(fw.Result{Verdict: fw.Inconclusive, Reason: "B-nondeterministic"})
				continue
			}
			n := 0
			for rep := 0; rep < 3; rep++ {
				for _, h := range sc.hist {
					ip.Run(h, interp.Options{FileName: "<c19>", Stdin: strings.NewReader("h1\nh2\n")})
					n++
				}
				got := toObsJSON(ip.Run(sc.b, interp.Options{FileName: "<c19>", Stdin: strings.NewReader("in1\nin2\n")}))
				n++
				if got != f1 {
					field, a, b := diffObs(got, f1)
					vs.add("C19|differs-from-fresh-process|"+field, fmt.Sprintf("scenario %q: program B:\n%s\nafter\n%s\nits %s is\n%s\nin a newly started process it is\n%s", sc.name, sc.b, strings.Join(sc.hist, "\n---\n"), field, truncateMid(a, 600), truncateMid(b, 600)),
						map[string]any{"B": sc.b, "history": sc.hist})
					break
				}
			}
			r := fw.Result{Verdict: fw.Held, Evals: n, Counters: map[string]int{"paired_scenarios": 1, "pairs_compared": 3, "B_with_fresh_baseline": 1, "fresh_processes": 2}, DKeys: []string{"scenario|" + sc.name}}
			vs.finish(&r)
			w.End(r)
		}
	}

	// `pangaea test` directories
	nd := w.Pick(32, 300)
	for d := 0; d < nd; d++ {
		if !w.Take() {
			continue
		}
		rng := w.Rand()
		w.Begin(fmt.Sprintf("runtest dir %d", d), map[string]any{"dir": d})
		dir, _ := os.MkdirTemp(tmp, "c19-dir-")
		nf := 2 + rng.Intn(3)
		var files []string
		shared := fmt.Sprintf("shared_%d", rng.Intn(100))
		for i := 0; i < nf; i++ {
			var src string
			switch {
			case i == 0:
				src = shared + " := " + fmt.Sprint(10+i) + "\nassertEq(" + shared + ", " + fmt.Sprint(10+i) + ")\n\"file0\".p"
			case rng.Intn(2) == 0:
				// reads the name a previous file defined: alone it fails with NameErr
				src = "\"reads\".p\n" + shared + ".p"
			default:
				src = fmt.Sprintf("local_%d := %d\nassert(local_%d == %d)\n\"ok%d\".p", i, i, i, i, i)
			}
			name := filepath.Join(dir, fmt.Sprintf("%c_test.pangaea", 'a'+i))
			os.WriteFile(name, []byte(src), 0o644)
			files = append(files, name)
		}
		// expectation from running each file alone
		var want bytes.Buffer
		wantCode := 0
		for _, f := range files {
			b, _ := os.ReadFile(f)
			var out bytes.Buffer
			code := runscript.RunSource(string(b), f, strings.NewReader(""), &out)
			want.WriteString("run:  " + f + "\n")
			want.Write(out.Bytes())
			if code != 0 {
				wantCode = code
				break
			}
			want.WriteString("pass: " + f + "\n")
		}
		var got bytes.Buffer
		gotCode := runscript.RunTest(dir, strings.NewReader(""), &got)
		os.RemoveAll(dir)
		r := fw.Result{Verdict: fw.Held, Evals: 1, Counters: map[string]int{"runtest_dirs": 1, "runtest_files": nf}, DKeys: []string{fmt.Sprintf("dir%d", d)}}
		if gotCode != wantCode || got.String() != want.String() {
			r.Verdict = fw.Violated
			r.VKey = "C19|pangaea-test|files-not-independent"
			r.Detail = fmt.Sprintf("RunTest(dir) exit=%d output:\n%s\nbut each file run alone gives exit=%d output:\n%s", gotCode, strings.ReplaceAll(got.String(), dir, "<dir>"), wantCode, strings.ReplaceAll(want.String(), dir, "<dir>"))
		}
		if d == 0 {
			r.Sample = strings.ReplaceAll(want.String(), dir, "<dir>")
		}
		w.End(r)
	}
}

func diffObs(a, b ObsJSON) (field, av, bv string) {
	switch {
	case a.Stdout != b.Stdout:
		return "stdout", a.Stdout, b.Stdout
	case a.ParseErr != b.ParseErr:
		return "parse-error", a.ParseErr, b.ParseErr
	case a.Inspect != b.Inspect:
		return "value", a.Inspect, b.Inspect
	case a.ErrKind != b.ErrKind || a.ErrMsg != b.ErrMsg:
		return "error", a.ErrKind + ": " + a.ErrMsg, b.ErrKind + ": " + b.ErrMsg
	case a.Stack != b.Stack:
		return "stack-trace", a.Stack, b.Stack
	case a.Panic != b.Panic:
		return "panic", a.Panic, b.Panic
	}
	return "cutoff", a.Cutoff, b.Cutoff
}
