package props

import (
	"fmt"
	"math/rand"
	"sort"
	"strings"

	"github.com/Syuparn/pangaea/object"

	"verif/fw"
	"verif/interp"
)

// C05 — property resolution follows the prototype chain, then _missing, then NoPropErr.
// Oracle: forest model (first hit walking o, proto(o), …, Obj, BaseObj; else first _missing; else NoPropErr).

type c5prop struct {
	kind string // value func method missing
	val  int
}

type c5obj struct {
	id     int
	parent int // -1: Obj
	props  map[string]c5prop
	hasUID bool
	base   string // roots only: source of a non-obj value the root was born from ("" : an obj literal, child of Obj)
}

type c5forest struct{ objs []*c5obj }

var c5names = []string{"a", "b", "c", "d", "e", "f", "_p", "_q"}

func (f *c5forest) chain(i int) []int {
	var out []int
	for j := i; j >= 0; j = f.objs[j].parent {
		out = append(out, j)
	}
	return out
}

// find returns the owner index and prop (owner -1: not found among user objects)
func (f *c5forest) find(i int, name string) (int, c5prop, bool) {
	for _, j := range f.chain(i) {
		if p, ok := f.objs[j].props[name]; ok {
			return j, p, true
		}
	}
	return -1, c5prop{}, false
}

// rootBase returns the non-obj value the forest of i is rooted at ("" for Obj).
func (f *c5forest) rootBase(i int) string {
	c := f.chain(i)
	return f.objs[c[len(c)-1]].base
}

var c5bases = []string{"[10, 20]", `"ab"`, "5", "1.5", "(1:3)", "[]", `""`, "0", "nil", "nil"}

func (f *c5forest) uid(i int) string {
	if _, p, ok := f.find(i, "uid"); ok {
		return fmt.Sprint(p.val)
	}
	return "" // NoPropErr
}

// c5val spells a value property: val -1 stands for a property whose own value is nil (it still shadows and still has an owner)
func c5val(p c5prop) string {
	if p.val == -1 {
		return "nil"
	}
	return fmt.Sprint(p.val)
}

func c5propSrc(name string, p c5prop) string {
	switch p.kind {
	case "value":
		return fmt.Sprintf("%s: %s", name, c5val(p))
	case "func":
		return fmt.Sprintf(`%s: {|r, x| ["f%d", r.uid, x]}`, name, p.val)
	case "method":
		return fmt.Sprintf(`%s: m{|x| ["m%d", .uid, x]}`, name, p.val)
	case "func0":
		// a function literal without a parameter list: it still receives the receiver first (\1) and the arguments after it
		return fmt.Sprintf(`%s: {["g%d", \1.uid, \0[1:][0]]}`, name, p.val)
	}
	return fmt.Sprintf(`_missing: m{|name, x| ["missing%d", .uid, name, x]}`, p.val)
}

func init() {
	fw.Register(&fw.Prop{
		ID:    "C05",
		Level: "exploration",
		Rule: "histories of 3–12 definitions building a prototype forest (object literals, p.bear({…}), p.bear, o.bro({…})) with properties from a small alphabet incl. private names — values, functions, methods and _missing at every depth, shadowing patterns — interleaved with up to 40 queries: o.name, o.name(arg), o['name], which, proto, ancestors, kindOf?, keys, keys(private?: true); every object has a unique own uid so owners and receivers are identified without relying on structural equality. " +
			"Oracle: the forest model. distinct = distinct (query kind, resolution class ∈ {own, inherited, shadowed, absent→_missing, absent→NoPropErr, built-in owner}, property kind, depth) tuples judged; non-trivial = every judged query" +
			" Added: own properties whose value is nil (they shadow, have an owner for which, and drop out of list-chain results), bear/bro whose props come from an existing object, forests rooted at values of other types (arr, str, int, float, range), list-chain calls over 2–4 receivers with 0–6 arguments, scalar calls with 1–5 arguments. Sixth round: forests rooted at nil; the same call spelled `&.` and `=.`.",
		Assumptions: []string{
			"model: first hit walking o, proto(o), … Obj, BaseObj; else the first _missing in the same order called with (receiver, name, args…); else NoPropErr; callable → invoked receiver-first, non-callable → returned as is; o['name] and which return nil for an absent name",
			"kindOf? is only queried against objects with an own uid (and Obj/BaseObj), because its `==` is structural",
		},
		Floor: func(m *fw.Merged) string {
			for _, c := range []string{"class_own", "class_inherited", "class_shadowed", "class_missing", "class_noprop"} {
				if m.Counters[c] < 20 {
					return fmt.Sprintf("resolution class %s judged only %d times", c, m.Counters[c])
				}
			}
			if m.Counters["histories"] < 300 {
				return fmt.Sprintf("histories=%d", m.Counters["histories"])
			}
			return ""
		},
		Run: runC05,
	})
}

func runC05(w *fw.W) {
	var ip *interp.Interp
	nh := w.Pick(3200, 80000)
	for h := 0; h < nh; h++ {
		if !w.Take() {
			continue
		}
		if ip == nil {
			ip = interp.New()
		}
		rng := w.Rand()
		w.Begin(fmt.Sprintf("history %d", h), map[string]any{"history": h})
		env := object.NewEnclosedEnv(ip.Const)
		f := &c5forest{}
		var lines []string
		var vs violSet
		dk := map[string]struct{}{}
		counters := map[string]int{"histories": 1}
		run := func(stmt string) *interp.Obs {
			lines = append(lines, stmt)
			w.Note(lines)
			return ip.Run(stmt, interp.Options{Env: env, Fuel: 200000})
		}
		qtag := ""
		expect := func(qkind, class, expr, want string, wantErr string) {
			o := run(expr)
			counters["queries"]++
			counters["class_"+class]++
			key := "C05|" + qkind + "|" + class
			hist := strings.Join(lines, "\n")
			switch {
			case o.Panic != "" || o.Cutoff != "" || o.ParseErr != "":
				vs.add(key+"|abnormal", fmt.Sprintf("%s → %s\nhistory:\n%s", expr, o.Outcome(), hist), lines)
			case wantErr != "" && (o.Err == nil || o.ErrKind != wantErr):
				vs.add(key, fmt.Sprintf("%s → %s, the forest model says %s\nhistory:\n%s", expr, o.Outcome(), wantErr, hist), lines)
			case wantErr == "" && (!o.OK() || o.Inspect != want):
				vs.add(key, fmt.Sprintf("%s → %s, the forest model says %s\nhistory:\n%s", expr, o.Outcome(), want, hist), lines)
			default:
				dk[qkind+"|"+class+qtag] = struct{}{}
			}
		}
		newProps := func(id int, withUID bool) (map[string]c5prop, string) {
			props := map[string]c5prop{}
			var parts []string
			if withUID {
				props["uid"] = c5prop{"value", id}
				parts = append(parts, fmt.Sprintf("uid: %d", id))
			}
			for k := 1 + rng.Intn(4); k > 0; k-- {
				name := c5names[rng.Intn(5+rng.Intn(4))]
				if _, dup := props[name]; dup {
					continue
				}
				p := c5prop{kind: []string{"value", "value", "func", "method", "func0"}[rng.Intn(5)], val: 1000 + id*10 + len(props)}
				if p.kind == "value" && rng.Intn(6) == 0 {
					p.val = -1 // nil-valued own property
				}
				props[name] = p
				parts = append(parts, c5propSrc(name, p))
			}
			if rng.Intn(5) == 0 {
				p := c5prop{kind: "missing", val: id}
				props["_missing"] = p
				parts = append(parts, c5propSrc("_missing", p))
			}
			return props, "{" + strings.Join(parts, ", ") + "}"
		}
		define := func() {
			id := len(f.objs)
			name := fmt.Sprintf("o%d", id)
			switch {
			case id == 0 || rng.Intn(7) == 0:
				props, lit := newProps(id, true)
				if rng.Intn(3) == 0 {
					// a forest rooted at a value of another type: resolution walks root, the value, its prototype, …
					base := c5bases[rng.Intn(len(c5bases))]
					f.objs = append(f.objs, &c5obj{id: id, parent: -1, props: props, hasUID: true, base: base})
					run(name + " := " + base + ".bear(" + lit + ")")
					counters["roots_of_other_types"]++
					break
				}
				f.objs = append(f.objs, &c5obj{id: id, parent: -1, props: props, hasUID: true})
				run(name + " := " + lit)
			case rng.Intn(5) == 0:
				p := rng.Intn(id)
				f.objs = append(f.objs, &c5obj{id: id, parent: p, props: map[string]c5prop{}})
				run(fmt.Sprintf("%s := o%d.bear", name, p))
			case rng.Intn(5) == 0:
				// the own props come from an existing object (not a literal): the new object is a child of the
				// receiver (bear) / of the receiver's proto (bro) holding that object's own props only
				s := rng.Intn(id)
				cp := map[string]c5prop{}
				for k, v := range f.objs[s].props {
					cp[k] = v
				}
				f.objs[s].hasUID = false // structurally equal twins: not used as kindOf? targets
				counters["define_from_object"]++
				switch v := rng.Intn(7); v {
				case 5, 6:
					// an object literal is a child of Obj holding the pairs it lists: `{**o}` lists o's own props
					f.objs = append(f.objs, &c5obj{id: id, parent: -1, props: cp})
					run(fmt.Sprintf("%s := "+[]string{"{**o%d}", "{**o%d, **{}}"}[v-5], name, s))
				case 0:
					f.objs = append(f.objs, &c5obj{id: id, parent: -1, props: cp})
					run(fmt.Sprintf("%s := Obj.bear(o%d)", name, s))
				case 1:
					f.objs = append(f.objs, &c5obj{id: id, parent: -1, props: cp})
					run(fmt.Sprintf("%s := %s.bro(o%d)", name, []string{"{}", "{zz: 1}"}[rng.Intn(2)], s))
				case 2:
					a := rng.Intn(id)
					f.objs = append(f.objs, &c5obj{id: id, parent: f.objs[a].parent, props: cp, base: f.objs[a].base})
					run(fmt.Sprintf("%s := o%d.bro(o%d)", name, a, s))
				default:
					p := rng.Intn(id)
					f.objs = append(f.objs, &c5obj{id: id, parent: p, props: cp})
					run(fmt.Sprintf("%s := o%d.bear(o%d)", name, p, s))
				}
			case rng.Intn(3) == 0:
				s := rng.Intn(id)
				props, lit := newProps(id, true)
				f.objs = append(f.objs, &c5obj{id: id, parent: f.objs[s].parent, props: props, hasUID: true, base: f.objs[s].base})
				run(fmt.Sprintf("%s := o%d.bro(%s)", name, s, lit))
			default:
				p := rng.Intn(id)
				props, lit := newProps(id, true)
				f.objs = append(f.objs, &c5obj{id: id, parent: p, props: props, hasUID: true})
				run(fmt.Sprintf("%s := o%d.bear(%s)", name, p, lit))
			}
		}
		query := func() {
			i := rng.Intn(len(f.objs))
			on := fmt.Sprintf("o%d", i)
			name := c5names[rng.Intn(len(c5names))]
			if rng.Intn(10) < 6 {
				// prefer names defined by an ancestor (inherited / shadowed lookups)
				var cand []string
				for _, j := range f.chain(i)[1:] {
					for n := range f.objs[j].props {
						if n != "uid" && n != "_missing" {
							cand = append(cand, n)
						}
					}
				}
				if len(cand) > 0 {
					sort.Strings(cand)
					name = cand[rng.Intn(len(cand))]
				}
			}
			owner, p, found := f.find(i, name)
			class := "noprop"
			depth := 0
			if found {
				for d, j := range f.chain(i) {
					if j == owner {
						depth = d
					}
				}
				switch {
				case depth == 0:
					class = "own"
				default:
					class = "inherited"
					// shadowed: an ancestor further up also defines the name
					for _, j := range f.chain(owner)[1:] {
						if _, ok := f.objs[j].props[name]; ok {
							class = "shadowed"
						}
					}
				}
			}
			qtag = fmt.Sprintf("|absent|chain%d", len(f.chain(i)))
			if found {
				qtag = fmt.Sprintf("|%s|depth%d|chain%d", p.kind, depth, len(f.chain(i)))
			}
			mOwner, mp, mFound := f.find(i, "_missing")
			_ = mOwner
			if !found && mFound {
				class = "missing"
			}
			uid := f.uid(i)
			uidIns := uid
			if uid == "" {
				uidIns = "?"
			}
			callResult := func(arg string) (string, string) {
				switch {
				case found && p.kind == "value":
					return c5val(p), ""
				case found && p.kind == "func":
					return fmt.Sprintf(`["f%d", %s, %s]`, p.val, uidIns, arg), ""
				case found && p.kind == "method":
					return fmt.Sprintf(`["m%d", %s, %s]`, p.val, uidIns, arg), ""
				case found && p.kind == "func0":
					return fmt.Sprintf(`["g%d", %s, %s]`, p.val, uidIns, arg), ""
				case mFound:
					return fmt.Sprintf(`["missing%d", %s, "%s", %s]`, mp.val, uidIns, name, arg), ""
				}
				return "", "NoPropErr"
			}
			// model result of calling `name` on object j with first argument arg ("" : the callee would read an undefined uid)
			resultOn := func(j int, arg string) (want, werr string, ok bool) {
				_, pj, fj := f.find(j, name)
				_, mpj, mfj := f.find(j, "_missing")
				u := f.uid(j)
				if u == "" && (fj && pj.kind != "value" || !fj && mfj) {
					return "", "", false
				}
				switch {
				case fj && pj.kind == "value":
					return c5val(pj), "", true
				case fj && pj.kind == "func":
					return fmt.Sprintf(`["f%d", %s, %s]`, pj.val, u, arg), "", true
				case fj && pj.kind == "method":
					return fmt.Sprintf(`["m%d", %s, %s]`, pj.val, u, arg), "", true
				case fj && pj.kind == "func0":
					return fmt.Sprintf(`["g%d", %s, %s]`, pj.val, u, arg), "", true
				case mfj:
					return fmt.Sprintf(`["missing%d", %s, "%s", %s]`, mpj.val, u, name, arg), "", true
				}
				return "", "NoPropErr", true
			}
			if rng.Intn(12) == 0 && len(f.objs) >= 2 {
				// objects expanded with ** into a call are only read by it
				run(fmt.Sprintf("{|| \\_.keys.len}(**o%d, **o%d)", rng.Intn(len(f.objs)), rng.Intn(len(f.objs))))
			}
			q := rng.Intn(16)
			if q == 15 {
				// the same call made through try: the wrapped value resolves the name exactly like the plain call
				want, werr, ok := resultOn(i, "7")
				if !ok {
					return
				}
				switch rng.Intn(3) {
				case 0:
					// the lonely / strict spellings of the call: the receiver is an object (never the nil value itself,
					// even in a forest rooted at nil), so the name resolves exactly like the plain call
					sp := []string{"&.", "=."}[rng.Intn(2)]
					if werr != "" {
						expect("call spelled "+sp, class, fmt.Sprintf("nil.try.{|u| %s%s%s(7)}.err.type == %s", on, sp, name, werr), "true", "")
					} else {
						expect("call spelled "+sp, class, fmt.Sprintf("%s%s%s(7)", on, sp, name), want, "")
					}
					return
				}
				if werr != "" {
					expect("try-call", class, fmt.Sprintf("%s.try.%s(7).err.type == %s", on, name, werr), "true", "")
				} else {
					expect("try-call", class, fmt.Sprintf("%s.try.%s(7).val", on, name), want, "")
				}
				return
			}
			if q >= 12 {
				// the same call spread over several receivers by a list chain, with 0–6 arguments: every element is
				// resolved on its own and receives the same arguments
				n := 2 + rng.Intn(3)
				nargs := rng.Intn(7)
				argv := []string{"7", "8", "9", "10", "11", "12"}[:nargs]
				arg := "nil"
				if nargs > 0 {
					arg = "7"
				}
				var els, wants []string
				werr := ""
				for k := 0; k < n; k++ {
					j := rng.Intn(len(f.objs))
					want, e, ok := resultOn(j, arg)
					if !ok {
						return
					}
					els = append(els, fmt.Sprintf("o%d", j))
					if e != "" && werr == "" {
						werr = e
					}
					if want != "nil" { // a list chain leaves nil results out (docs: chains); only a nil-valued property answers nil here
						wants = append(wants, want)
					}
				}
				src := "[" + strings.Join(els, ", ") + "]@" + name
				if nargs > 0 {
					src += "(" + strings.Join(argv, ", ") + ")"
				}
				qtag = fmt.Sprintf("|n%d|args%d", n, nargs)
				expect("list-chain call", class, src, "["+strings.Join(wants, ", ")+"]", werr)
				return
			}
			if f.rootBase(i) != "" && q >= 6 && q < 12 {
				// questions about the built-in part of the chain (Obj/BaseObj owners, ancestors, own-key listing of
				// values whose type lists something else) are asked of obj-rooted forests only
				q = rng.Intn(6)
			}
			switch {
			case q < 2:
				if uid == "" && (found && p.kind != "value" || !found && mFound) {
					return // the callee would read an undefined uid
				}
				want, werr := callResult("nil")
				expect("o.name", class, on+"."+name, want, werr)
			case q < 4:
				if uid == "" && (found && p.kind != "value" || !found && mFound) {
					return
				}
				want, werr := callResult("7")
				expect("o.name(arg)", class, on+"."+name+"("+[]string{"7", "7, 8", "7, 8, 9", "7, 8, 9, 10, 11"}[rng.Intn(4)]+")", want, werr)
			case q == 4:
				switch {
				case found && p.kind == "value":
					expect("o['name]", class, on+"['"+name+"]", c5val(p), "")
				case !found:
					expect("o['name]", class, on+"['"+name+"]", "nil", "")
				}
			case q == 5:
				if found {
					expect("which", class, fmt.Sprintf("%s.which('%s)['uid]", on, name), fmt.Sprint(f.objs[owner].props["uid"].val), "")
				} else {
					expect("which", class, fmt.Sprintf("%s.which('%s)", on, name), "nil", "")
				}
			case q == 6:
				bn := []string{"keys", "which", "bear", "proto", "ancestors", "at", "kindOf?"}[rng.Intn(7)]
				if _, _, shadow := f.find(i, bn); !shadow {
					expect("which", "builtin-owner", fmt.Sprintf("[Obj, BaseObj].has?(%s.which('%s))", on, bn), "true", "")
				}
			case q == 7:
				if par := f.objs[i].parent; par < 0 {
					expect("proto", "root", on+".proto == Obj", "true", "")
				} else if pu := f.uid(par); pu != "" {
					expect("proto", "child", on+".proto['uid]", pu, "")
				}
			case q == 8:
				ch := f.chain(i)[1:]
				var parts []string
				for _, j := range ch {
					u := f.uid(j)
					if u == "" {
						u = "nil"
					}
					parts = append(parts, u)
				}
				parts = append(parts, "nil", "nil") // Obj, BaseObj
				expect("ancestors", fmt.Sprintf("depth%d", len(ch)), on+".ancestors=@{|a| a['uid]}", "["+strings.Join(parts, ", ")+"]", "")
				expect("ancestors", "ends-with-Obj-BaseObj", on+".ancestors[-2:] == [Obj, BaseObj]", "true", "")
			case q == 9:
				j := rng.Intn(len(f.objs))
				if !f.objs[j].hasUID {
					return
				}
				member := false
				for _, a := range f.chain(i) {
					if a == j {
						member = true
					}
				}
				expect("kindOf?", fmt.Sprintf("member=%v", member), fmt.Sprintf("%s.kindOf?(o%d)", on, j), fmt.Sprint(member), "")
				expect("kindOf?", "builtin", fmt.Sprintf("[%s.kindOf?(Obj), %s.kindOf?(BaseObj)]", on, on), "[true, true]", "")
			default:
				var pub, priv []string
				for n := range f.objs[i].props {
					if strings.HasPrefix(n, "_") {
						priv = append(priv, `"`+n+`"`)
					} else {
						pub = append(pub, `"`+n+`"`)
					}
				}
				sort.Strings(pub)
				sort.Strings(priv)
				if _, _, shadow := f.find(i, "keys"); shadow {
					return
				}
				expect("keys", "own-public", on+".keys", "["+strings.Join(pub, ", ")+"]", "")
				expect("keys", "private?:true", on+".keys(private?: true)", "["+strings.Join(append(pub, priv...), ", ")+"]", "")
			}
		}
		nd := 3 + rng.Intn(10)
		nq := 10 + rng.Intn(31)
		for d := 0; d < nd; d++ {
			define()
			for k := 0; k < nq/nd+1; k++ {
				query()
			}
		}
		r := fw.Result{Verdict: fw.Held, Evals: len(lines), Counters: counters}
		for k := range dk {
			r.DKeys = append(r.DKeys, k)
		}
		if h%80 == 0 && len(lines) > 6 {
			r.Sample = map[string]any{"history_head": lines[:6], "queries": counters["queries"]}
		}
		vs.finish(&r)
		w.End(r)
	}
	_ = rand.Int
}
