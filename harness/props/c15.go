package props

import (
	"fmt"
	"strings"

	"verif/fw"
	"verif/interp"
)

// C15 — deferred expressions run exactly once, in order, on every way out of a function.
// Oracle: the defer model of the statement, evaluated on the generator's own body description.

type c15stmt struct {
	kind string // mark defer deferT deferF deferRaise call lateVar
	id   int
}

type c15exit struct {
	kind string // none return returnIfTrue returnIfFalse raise hostErr nestedFail
	pos  int    // statement index before which the exit is placed
}

type c15outcome struct {
	isErr bool
	kind  string
	msg   string
	val   string
}

const c15prelude = `boom := {|i| "R#{i}".p; raise ValueErr.new("dboom#{i}")}
innerOk := {|| "I".p; defer "ID".p; "I2".p; 7}
innerFail := {|| "F".p; defer "FD".p; raise TypeErr.new("inner"); "unreached".p}
gmark := {|m| m.p; true}
innerFailV := {|x| innerFail()}
innerFailV2 := {|a, x| innerFail()}
`

// body renders the statements and returns the model's output lines and outcome.
func c15model(stmts []c15stmt, ex c15exit) (src []string, out []string, oc c15outcome) {
	type reg struct {
		text   string
		raises bool
		id     int
		late   bool
	}
	var registered []reg
	exited := false
	lateVal := ""
	emitExit := func() {
		switch ex.kind {
		case "return":
			src = append(src, "return 55")
			oc, exited = c15outcome{val: "55"}, true
		case "returnIfTrue":
			src = append(src, "return 56 if true")
			oc, exited = c15outcome{val: "56"}, true
		case "returnIfFalse":
			src = append(src, "return 57 if false")
		case "raise":
			src = append(src, `raise AssertionErr.new("bodyraise")`)
			oc, exited = c15outcome{isErr: true, kind: "AssertionErr", msg: "bodyraise"}, true
		case "hostErr":
			src = append(src, "1 / 0")
			oc, exited = c15outcome{isErr: true, kind: "ZeroDivisionErr", msg: "cannot be divided by 0"}, true
		case "nestedFailChain":
			// the failing nested call is made through a chain (every context except the thoughtful one passes it on)
			src = append(src, []string{"[1]=@{|x| innerFail()}", "[1]=@^innerFailV", "[1]@{|x| innerFail()}", "1=.{|x| innerFail()}", "[1]$(0){|a, x| innerFail()}", "1&.{|x| innerFail()}",
				"{f: m{innerFail()}}=.f", "[{f: m{innerFail()}}]=@f", "[1]&@^innerFailV", "[1]=$(0)^innerFailV2", "1.^innerFailV", "[[1]]@{|y| y=@{|x| innerFail()}}"}[ex.pos%12])
			out = append(out, "F", "FD")
			oc, exited = c15outcome{isErr: true, kind: "TypeErr", msg: "inner"}, true
		case "guardRaises":
			// the guard of a jump statement fails: the body ends there with that error (nothing is registered, no jump is made)
			src = append(src, []string{`defer "GD".p if innerFail()`, `return 58 if innerFail()`, `raise ValueErr.new("g") if innerFail()`, `defer "GD".p if [1]=@{|x| innerFail()}`}[ex.pos%4])
			out = append(out, "F", "FD")
			oc, exited = c15outcome{isErr: true, kind: "TypeErr", msg: "inner"}, true
		case "nestedFail":
			src = append(src, "innerFail()")
			out = append(out, "F", "FD")
			oc, exited = c15outcome{isErr: true, kind: "TypeErr", msg: "inner"}, true
		}
	}
	for i, s := range stmts {
		if i == ex.pos && !exited {
			emitExit()
		}
		// statements after the exit are still written (they must not run)
		switch s.kind {
		case "mark":
			src = append(src, fmt.Sprintf(`"M%d".p`, s.id))
			if !exited {
				out = append(out, fmt.Sprintf("M%d", s.id))
			}
		case "defer":
			src = append(src, fmt.Sprintf(`defer "D%d".p`, s.id))
			if !exited {
				registered = append(registered, reg{text: fmt.Sprintf("D%d", s.id)})
			}
		case "deferT":
			src = append(src, fmt.Sprintf(`defer "D%d".p if true`, s.id))
			if !exited {
				registered = append(registered, reg{text: fmt.Sprintf("D%d", s.id)})
			}
		case "deferF":
			src = append(src, fmt.Sprintf(`defer "D%d".p if false`, s.id))
		case "deferExpr":
			// the deferred expression is not a call at its top: a conditional, an array, an assignment, an interpolation
			src = append(src, fmt.Sprintf([]string{`defer ("D%d".p if true else 0)`, `defer ["D%d".p]`, `defer dx := "D%d".p`, `defer "#{"D%d".p}"`, `defer (0 || "D%d".p)`}[s.id%5], s.id))
			if !exited {
				registered = append(registered, reg{text: fmt.Sprintf("D%d", s.id)})
			}
		case "deferArgRef":
			// the deferred expression reads the call's own arguments (\0): it runs in the frame of that call
			src = append(src, fmt.Sprintf(`defer (\0.len >= 0 && "D%d".p)`, s.id))
			if !exited {
				registered = append(registered, reg{text: fmt.Sprintf("D%d", s.id)})
			}
		case "deferGT":
			// the guard is true when the defer is reached and false afterwards: the defer was registered
			src = append(src, fmt.Sprintf("g%d := true", s.id), fmt.Sprintf(`defer "D%d".p if g%d`, s.id, s.id), fmt.Sprintf("g%d := false", s.id))
			if !exited {
				registered = append(registered, reg{text: fmt.Sprintf("D%d", s.id)})
			}
		case "deferGF":
			// the guard is false when reached and true afterwards: the defer was not registered
			src = append(src, fmt.Sprintf("g%d := false", s.id), fmt.Sprintf(`defer "D%d".p if g%d`, s.id, s.id), fmt.Sprintf("g%d := true", s.id))
		case "deferGM":
			// the guard is evaluated where the defer statement stands (its marker appears in body order)
			src = append(src, fmt.Sprintf(`defer "D%d".p if gmark("G%d")`, s.id, s.id))
			if !exited {
				out = append(out, fmt.Sprintf("G%d", s.id))
				registered = append(registered, reg{text: fmt.Sprintf("D%d", s.id)})
			}
		case "deferTv":
			// guard that is truthy without being the `true` object
			src = append(src, fmt.Sprintf(`defer "D%d".p if %s`, s.id, []string{"1", `"s"`, "[0]", "{a: 1}", "0.5"}[s.id%5]))
			if !exited {
				registered = append(registered, reg{text: fmt.Sprintf("D%d", s.id)})
			}
		case "deferFv":
			src = append(src, fmt.Sprintf(`defer "D%d".p if %s`, s.id, []string{"0", `""`, "[]", "nil", "{}"}[s.id%5]))
		case "deferRaise":
			src = append(src, fmt.Sprintf(`defer boom(%d)`, s.id))
			if !exited {
				registered = append(registered, reg{raises: true, id: s.id})
			}
		case "call":
			src = append(src, "innerOk()")
			if !exited {
				out = append(out, "I", "I2", "ID")
			}
		case "lateVar":
			// a defer reading a variable that is assigned later in the body: it sees the final value
			src = append(src, "defer z.p", fmt.Sprintf("z := %d", 900+s.id))
			if !exited {
				registered = append(registered, reg{late: true})
				lateVal = fmt.Sprint(900 + s.id)
			}
		}
	}
	if ex.pos >= len(stmts) && !exited {
		emitExit()
	}
	src = append(src, "99")
	if !exited {
		oc = c15outcome{val: "99"}
	}
	for _, r := range registered {
		if r.raises {
			out = append(out, fmt.Sprintf("R%d", r.id))
			oc = c15outcome{isErr: true, kind: "ValueErr", msg: fmt.Sprintf("dboom%d", r.id)}
			break
		}
		if r.late {
			if lateVal == "" {
				// registered but the assignment was never reached: the read fails with NameErr
				oc = c15outcome{isErr: true, kind: "NameErr", msg: "name `z` is not defined"}
				break
			}
			out = append(out, lateVal)
			continue
		}
		out = append(out, r.text)
	}
	return
}

type c15ctx struct {
	name string
	wrap func(body string) string
	// adapt expected output/outcome to the context
	pre, post []string
	val       func(v string) string
}

var c15contexts = []c15ctx{
	{name: "func", wrap: func(b string) string { return "f := {||\n" + b + "\n}\nf()" }},
	{name: "method", wrap: func(b string) string { return "o := {m: m{||\n" + b + "\n}}\no.m()" }},
	{name: "literal-call", wrap: func(b string) string { return "1.{|x|\n" + b + "\n}" }},
	{name: "list-chain-callee", wrap: func(b string) string { return "[1]@{|x|\n" + b + "\n}" }, val: func(v string) string { return "[" + v + "]" }},
	{name: "iterator-step", wrap: func(b string) string { return "it := <{|i|\n" + b + "\n}>.new(1)\nit.next" }},
	{name: "var-call", wrap: func(b string) string { return "f := {|x|\n" + b + "\n}\n1.^f" }},
	{name: "reduce-chain-callee", wrap: func(b string) string { return "[1]$(0){|acc, x|\n" + b + "\n}" }},
	// function bodies the interpreter calls on its own: operator methods behind infix / prefix syntax, callProp,
	// a property spread by a list chain
	{name: "infix-operator-method", wrap: func(b string) string { return "o := {'+: m{|other|\n" + b + "\n}}\no + 1" }},
	{name: "prefix-operator-method", wrap: func(b string) string { return "o := {'-%: m{\n" + b + "\n}}\n-o" }},
	{name: "callProp", wrap: func(b string) string { return "o := {f: m{\n" + b + "\n}}\nObj.callProp(o, 'f)" }},
	{name: "list-chain-prop", wrap: func(b string) string { return "o := {f: m{\n" + b + "\n}}\n[o]@f" }, val: func(v string) string { return "[" + v + "]" }},
	{name: "comparison-operator-method", wrap: func(b string) string { return "o := {'==: m{|other|\n" + b + "\n}}\no == 1" }},
	{name: "two-level", wrap: func(b string) string {
		return "f := {||\n" + b + "\n}\ng := {|| \"O\".p; defer \"OD\".p; r := f(); \"O2\".p; r}\ng()"
	}, pre: []string{"O"}},
}

func init() {
	fw.Register(&fw.Prop{
		ID:    "C15",
		Level: "fault_enumeration",
		Rule: "function bodies of n statements over the alphabet {marker, defer, defer…if true, defer…if false, deferred expression that raises, nested call with its own defers} with an exit (fall off the end, return, guarded return true/false, raise, host error, failure inside a nested call) injected at every statement index, run as a function, a method, a literal call, a list-chain callee and inside a second-level caller with its own defers; n ≤ 3 complete in quick, n ≤ 4 complete in thorough, plus bodies with a defer that reads a variable assigned later. " +
			"Oracle: stdout marker sequence and final value/error (kind, message) against the defer model of the statement. distinct = distinct (body layout, exit kind, exit position, context) tuples; non-trivial = the body contains ≥1 defer" +
			" Added: contexts iterator step, variable call, reduce-chain callee, operator methods behind infix/prefix/== syntax, callProp, list-chain property; guards that are truthy/falsy non-bools, whose value changes after the defer statement, or that print a marker. Sixth round: exits `guardRaises` (failing guard of defer / return / raise) and `nestedFailChain` (nested failing call made through 12 chain spellings).",
		Assumptions: []string{
			"model: defers reached before the exit are registered in order (guarded ones only when the condition is true); after the body they run in that order, stopping at the first one that raises, whose error replaces the outcome; otherwise the outcome is unchanged",
			"every body ends with an explicit value expression, so the value of a body whose last statement is `defer` (undocumented) is never judged",
		},
		Exhaustive: func(string) bool { return true },
		Floor: func(m *fw.Merged) string {
			if m.Counters["programs"] < 4000 {
				return fmt.Sprintf("programs=%d", m.Counters["programs"])
			}
			return ""
		},
		Run: runC15,
	})
}

func runC15(w *fw.W) {
	var ip *interp.Interp
	kinds := []string{"mark", "defer", "deferT", "deferF", "deferTv", "deferFv", "deferRaise", "call"}
	exits := []string{"none", "return", "returnIfTrue", "returnIfFalse", "raise", "hostErr", "nestedFail", "nestedFailChain", "guardRaises"}
	maxN := w.Pick(3, 4)
	// enumerate layouts; one case per (n, first statement kind, context)
	var layouts [][]c15stmt
	var rec func(cur []c15stmt, n int)
	rec = func(cur []c15stmt, n int) {
		if len(cur) == n {
			layouts = append(layouts, append([]c15stmt{}, cur...))
			return
		}
		for _, k := range kinds {
			rec(append(cur, c15stmt{kind: k, id: len(cur) + 1}), n)
		}
	}
	for n := 0; n <= maxN; n++ {
		rec(nil, n)
	}
	// late-variable bodies (sampled family)
	for _, pos := range []int{0, 1, 2} {
		for _, k := range kinds {
			l := []c15stmt{{kind: k, id: 1}, {kind: "mark", id: 2}, {kind: "defer", id: 3}}
			l = append(l[:pos], append([]c15stmt{{kind: "lateVar", id: 4}}, l[pos:]...)...)
			layouts = append(layouts, l)
		}
	}
	// guards whose value changes after the defer statement / whose evaluation is visible (sampled family)
	for _, nk := range []string{"deferGT", "deferGF", "deferGM", "deferExpr", "deferArgRef"} {
		for _, pos := range []int{0, 1, 2} {
			for _, k := range kinds {
				l := []c15stmt{{kind: k, id: 1}, {kind: "mark", id: 2}, {kind: "defer", id: 3}}
				l = append(l[:pos], append([]c15stmt{{kind: nk, id: 4 + pos + len(layouts)%5}}, l[pos:]...)...)
				layouts = append(layouts, l)
			}
		}
	}
	// bodies that are exactly one defer statement (plain / guarded): called as statements (their value is undocumented)
	if w.Take() {
		if ip == nil {
			ip = interp.New()
		}
		w.Begin("bodies made of a single defer", nil)
		var vs violSet
		n := 0
		for _, body := range []struct{ src, out string }{
			{`defer "D1".p`, "D1"}, {`defer "D1".p if true`, "D1"}, {`defer "D1".p if false`, ""}, {`defer "D1".p if 1`, "D1"}, {`defer boom(1)`, "R1"},
		} {
			for _, ctx := range []struct{ name, def, call string }{
				{"func", "f := {|| %s}", "f()"}, {"method", "o := {m: m{%s}}", "o.m"}, {"one-param func", "f := {|x| %s}", "f(1)"},
				{"list-chain callee", "f := {|x| %s}", "[1, 2]@^f"}, {"operator method", "o := {'+: m{|z| %s}}", "o + 1"},
			} {
				prog := c15prelude + fmt.Sprintf(ctx.def, body.src) + "\n\"B\".p\n" + ctx.call + "\n\"A\".p\n{|| \"O\".p; " + ctx.call + "; \"O2\".p; 9}()\n\"END\".p"
				o := ip.Run(prog, interp.Options{})
				n++
				reps := 1
				if ctx.name == "list-chain callee" {
					reps = 2
				}
				var want []string
				rep := func() {
					for i := 0; i < reps; i++ {
						if body.out != "" {
							want = append(want, body.out)
						}
					}
				}
				raises := body.out == "R1"
				want = append(want, "B")
				rep()
				if raises {
					// the deferred expression raises: the call ends with that error (once, at the first call)
					want = want[:2]
				} else {
					want = append(want, "A", "O")
					rep()
					want = append(want, "O2", "END")
				}
				got := strings.Split(strings.TrimSuffix(o.Stdout, "\n"), "\n")
				switch {
				case o.Panic != "" || o.ParseErr != "" || o.Cutoff != "":
					vs.add("C15|single-defer-body|"+ctx.name+"|abnormal", prog+"\n→ "+o.Outcome()+" "+firstLine(o.ParseErr), prog)
				case strings.Join(got, ",") != strings.Join(want, ","):
					vs.add("C15|single-defer-body|"+ctx.name+"|marker-sequence", fmt.Sprintf("%s\nprinted %v\nmodel   %v", prog, got, want), prog)
				case raises && (o.Err == nil || o.ErrKind != "ValueErr"):
					vs.add("C15|single-defer-body|"+ctx.name+"|outcome", fmt.Sprintf("%s\noutcome %s, model error ValueErr", prog, o.Outcome()), prog)
				}
			}
		}
		r := fw.Result{Verdict: fw.Held, Evals: n, Counters: map[string]int{"programs": n, "single_defer_bodies": n}, DKeys: []string{"single-defer-body"}}
		vs.finish(&r)
		w.End(r)
	}
	chunk := 36
	for ci, ctx := range c15contexts {
		for start := 0; start < len(layouts); start += chunk {
			if !w.Take() {
				continue
			}
			if ip == nil {
				ip = interp.New()
			}
			end := start + chunk
			if end > len(layouts) {
				end = len(layouts)
			}
			w.Begin(fmt.Sprintf("context %s layouts %d-%d", ctx.name, start, end), map[string]any{"context": ctx.name, "from": start, "to": end})
			var vs violSet
			var dks []string
			n := 0
			var sample string
			for li := start; li < end; li++ {
				l := layouts[li]
				for _, ek := range exits {
					for pos := 0; pos <= len(l); pos++ {
						if ek == "none" && pos > 0 {
							continue
						}
						body, out, oc := c15model(l, c15exit{kind: ek, pos: pos})
						prog := c15prelude + ctx.wrap(strings.Join(body, "\n"))
						want := append([]string{}, ctx.pre...)
						want = append(want, out...)
						wantOC := oc
						if ctx.name == "two-level" {
							if !oc.isErr {
								want = append(want, "O2")
							}
							want = append(want, "OD")
						}
						if !wantOC.isErr && ctx.val != nil {
							wantOC.val = ctx.val(wantOC.val)
						}
						w.Note(prog)
						o := ip.Run(prog, interp.Options{})
						n++
						gotOut := strings.Split(strings.TrimSuffix(o.Stdout, "\n"), "\n")
						if o.Stdout == "" {
							gotOut = nil
						}
						layout := c15layoutKey(l)
						key := fmt.Sprintf("C15|%s|exit:%s", ctx.name, ek)
						desc := fmt.Sprintf("context %s, body:\n%s", ctx.name, strings.Join(body, "\n"))
						switch {
						case o.Panic != "" || o.Cutoff != "" || o.ParseErr != "":
							vs.add(key+"|abnormal", desc+"\n→ "+o.Outcome()+" "+firstLine(o.ParseErr), prog)
						case strings.Join(gotOut, ",") != strings.Join(want, ","):
							vs.add(key+"|marker-sequence", fmt.Sprintf("%s\nprinted %v\nmodel   %v", desc, gotOut, want), prog)
						case wantOC.isErr && (o.Err == nil || o.ErrKind != wantOC.kind || o.ErrMsg != wantOC.msg):
							vs.add(key+"|outcome", fmt.Sprintf("%s\noutcome %s, model error %s: %s", desc, o.Outcome(), wantOC.kind, wantOC.msg), prog)
						case !wantOC.isErr && (!o.OK() || o.Inspect != wantOC.val):
							vs.add(key+"|outcome", fmt.Sprintf("%s\noutcome %s, model value %s", desc, o.Outcome(), wantOC.val), prog)
						default:
							if sample == "" && len(l) >= 3 && ek == "raise" && strings.Contains(layout, "defer") {
								sample = fmt.Sprintf("%s | exit %s@%d | context %s → %v then %s ✓", layout, ek, pos, ctx.name, want, o.Outcome())
							}
						}
						if strings.Contains(layout, "defer") || strings.Contains(layout, "call") || strings.Contains(layout, "lateVar") {
							dks = append(dks, fmt.Sprintf("%d|%s|%s|%d", ci, layout, ek, pos))
						}
					}
				}
			}
			r := fw.Result{Verdict: fw.Held, Evals: n, DKeys: dks, Counters: map[string]int{"programs": n}}
			if sample != "" {
				r.Sample = sample
			}
			vs.finish(&r)
			w.End(r)
		}
	}
}

func c15layoutKey(l []c15stmt) string {
	var p []string
	for _, s := range l {
		p = append(p, s.kind)
	}
	return strings.Join(p, ",")
}
