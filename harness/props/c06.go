package props

import (
	"fmt"
	"math/rand"
	"strings"

	"github.com/Syuparn/pangaea/object"

	"verif/fw"
	"verif/interp"
	"verif/walk"
)

// C06 — values are immutable: no operation changes an existing value.
// Oracle: structural monitor at quiescent points (after each top-level statement) over
// everything reachable from the scope + boundary cross-check of Inspect().

func familyOf(o object.PanObject) string {
	switch o.(type) {
	case *object.PanInt:
		return "int"
	case *object.PanFloat:
		return "float"
	case *object.PanStr:
		return "str"
	case *object.PanBool:
		return "bool"
	case *object.PanNil:
		return "nil"
	case *object.PanArr:
		return "arr"
	case *object.PanObj:
		return "obj"
	case *object.PanMap:
		return "map"
	case *object.PanRange:
		return "range"
	case *object.PanFunc:
		if o.(*object.PanFunc).FuncKind == object.IterFunc {
			return "iter"
		}
		return "func"
	case *object.PanErrWrapper:
		return "errw"
	}
	return "other"
}

// c06selfCheck labels statements that compare, inside themselves, what every value handed to an earlier step
// printed then with what it prints at the end; their result is a boolean or an array of booleans, all true.
const c06selfCheck = "values kept across the steps of one chain"

type c06op struct {
	label string
	src   string
}

func c06pick(rng *rand.Rand, all []*PoolVal, fam ...string) *PoolVal {
	if len(fam) > 0 {
		var c []*PoolVal
		for _, v := range all {
			for _, f := range fam {
				if v.Family == f {
					c = append(c, v)
				}
			}
		}
		if len(c) > 0 {
			// prefer recently created values (aliasing with earlier results)
			if rng.Intn(2) == 0 && len(c) > 6 {
				return c[len(c)-1-rng.Intn(6)]
			}
			return c[rng.Intn(len(c))]
		}
	}
	return all[rng.Intn(len(all))]
}

func c06gen(rng *rand.Rand, hp *Pool, cat []catEntry) c06op {
	all := hp.Vals
	n := func(fam ...string) string { return c06pick(rng, all, fam...).Name }
	small := func() string { return fmt.Sprint(rng.Intn(7) - 3) }
	switch rng.Intn(27) {
	case 25, 26:
		// == / != between values of one family (equal copies included): comparing reads both operands and changes neither
		fam := []string{"obj", "map", "arr"}[rng.Intn(3)]
		a := n(fam)
		b := n(fam)
		if rng.Intn(2) == 0 {
			b = map[string]string{"obj": "{**%s}", "map": "%%{**%s}", "arr": "[*%s]"}[fam]
			b = fmt.Sprintf(b, a)
		}
		if rng.Intn(2) == 0 {
			// self-check: both operands are listed again after the comparisons
			return c06op{c06selfCheck, fmt.Sprintf("{|a, b| l := {|v| [v.S, v.repr, v.A.S, v@{|x| x}.S] + ([v.keys.S, v.values.S, v.items.S] if v.kindOf?(Arr).! else [])}; before := [l(a), l(b)]; r := [a == b, b == a, a != b, a == a, b == b]; [l(a), l(b)] == before}(%s, %s)", a, b)}
		}
		op := []string{"==", "!=", "==", "==="}[rng.Intn(4)]
		return c06op{"infix " + op + " within one family", fmt.Sprintf("[%s %s %s, %s %s %s]", a, op, b, b, op, a)}
	case 23, 24:
		// compound assignment on a variable that aliases an earlier value: the variable changes, the value does not
		v := n("arr", "str", "int", "obj", "map", "float")
		rhs := []string{"[1]", "[x]", "\"z\"", "1", "2", "[[1]]", "{q: 1}", "x"}[rng.Intn(8)]
		op := []string{"+", "+", "+", "*", "-", "||", "&&", "<<"}[rng.Intn(8)]
		return c06op{"compound assignment " + op + "=", fmt.Sprintf("{|x| t := %s; t %s= %s; t %s= %s; [t, x]}(%s)", v, op, rhs, op, rhs, n())}
	case 21, 22:
		// values handed to the steps of one chain (the [acc, elem] pair of a reduce step, the argument list, the
		// element captured by a closure) are kept and must still print at the end what they printed in their step
		r := n("arr", "str", "obj", "range", "map")
		r2 := n("arr", "str", "range") // element-wise comparison: receivers whose steps receive one element
		return c06op{c06selfCheck, []string{
			fmt.Sprintf("%s$([]){|p| [*p[0], [p, p[1].S]]}@{|q| q[0][1].S == q[1]}", r),
			fmt.Sprintf("%s$([])^keepPair@{|q| q[0][1].S == q[1]}", r),
			fmt.Sprintf("%s@{|x| [\\0, \\0.S]}@{|q| q[0].S == q[1]}", r),
			fmt.Sprintf("%s@{|x| {|| x}}@{|f| f()}.S == %s@{|x| x}.S", r2, r2),
			fmt.Sprintf("%s$([]){|p| [*p[0], {|| p[1]}]}@{|f| f()}.S == %s@{|x| x}.S", r2, r2),
			fmt.Sprintf("%s~$([]){|p| [*p[0], [p, p[1].S]]}@{|q| q[0][1].S == q[1]}", r),
			// one source (with or without spare room behind its elements) unpacked / extended several times
			fmt.Sprintf("{|s| a := [*s, 1]; b := [*s, 2]; c := [*s, 3]; [a[-1] == 1, b[-1] == 2, c[-1] == 3, a.len == s.len + 1]}(%s%s)", n("arr"), []string{"", " + [0]", "[0:1]", "[:-1]", ".A", " * 2"}[rng.Intn(6)]),
			fmt.Sprintf("{|s| a := s + [1]; b := s + [2]; c := [*s, *s]; [a[-1] == 1, b[-1] == 2, c.len == s.len * 2]}(%s%s)", n("arr"), []string{"", " + [0]", "[0:1]", "[:-1]", ".A"}[rng.Intn(5)]),
			// look-ups (by scalar and non-scalar keys, present and absent) leave a map / obj as it printed before
			fmt.Sprintf("{|m| before := [m.S, m.keys.S, m.values.S]; m[[3]]; m[[2]]; m[{a: 1}]; m[1]; m['k]; m[%s]; [m.S, m.keys.S, m.values.S] == before}(%s)", n("arr", "obj", "int", "str"), n("map", "obj")),
			// one kwargs object handed to every call of a chain: what a callee saw of it stays what it saw
			"[{m: m{|x: 1| [\\_, \\_.S]}}, {m: m{|y: 2| [\\_, \\_.S]}}, {m: m{|z: 3, k: 9| [\\_, \\_.S]}}]@m(k: 0)@{|q| q[0].S == q[1]}",
		}[rng.Intn(10)]}
	case 19, 20:
		// a stored, caught error raised again (and caught again): the stored value keeps its own report
		e := n("errw", "either")
		return c06op{"re-raise stored error", []string{
			fmt.Sprintf("\"\".try.{|x| raise %s}", e), fmt.Sprintf("\"\".try.{|x| %s.abandon}", e), fmt.Sprintf("\"\".try.{|x| raise %s.err}", e),
			fmt.Sprintf("{|| \"\".try.{|x| {|| raise %s}()}}()", e), fmt.Sprintf("1.try.fmap {|x| %s.abandon}.err", e), fmt.Sprintf("[%s, %s]~@{|w| raise w}", e, e),
		}[rng.Intn(6)]}
	case 18:
		// small-int arithmetic whose results coincide with commonly shared values (0, 1, -1)
		op := []string{"+", "-", "*", "/", "//", "%", "**", "<=>"}[rng.Intn(8)]
		return c06op{"infix " + op, fmt.Sprintf("%d %s %d", rng.Intn(9)-4, op, rng.Intn(9)-4)}
	case 16, 17:
		// index expression whose index is an earlier value (ranges with and without step, ints, arrays of indices)
		return c06op{"index by earlier value", fmt.Sprintf("%s[%s]", n("arr", "str", "range", "obj", "map"), n("range", "range", "int", "arr", "str"))}
	case 0, 1, 2, 3:
		e := cat[rng.Intn(len(cat))]
		src, shape := c01callSource(rng, hp, e)
		return c06op{"call " + e.proto + "#" + e.prop + " (" + strings.Split(shape, "|")[1] + ")", src}
	case 4:
		return c06op{"literal [*a, x]", fmt.Sprintf("[*%s, %s]", n("arr"), n())}
	case 5:
		return c06op{"literal {k: v, **o}", fmt.Sprintf("{k: %s, a: %s, **%s}", n(), n(), n("obj"))}
	case 6:
		return c06op{"literal %{k: v, **m}", fmt.Sprintf("%%{%s: %s, **%s}", n(), n(), n("map", "obj"))}
	case 7:
		if rng.Intn(2) == 0 {
			// two ** expansions in one call: the second must not be merged into the first operand
			return c06op{"call with two ** expansions", fmt.Sprintf("{|x, k: 1| [\\_, x, k]}(%s, **%s, **%s)", n(), n("obj"), n("obj"))}
		}
		return c06op{"call with *args/**kwargs", fmt.Sprintf("{|x, y, k: 1| [\\0, \\_, x, k]}(*%s, k: %s, **%s)", n("arr"), n(), n("obj"))}
	case 8:
		ch := []string{"@", "=@", "~@", "&@"}[rng.Intn(4)]
		return c06op{"list chain " + ch + " literal", fmt.Sprintf("%s%s{|x| [x, x]}", n("arr", "obj", "map", "range", "str"), ch)}
	case 9:
		ch := []string{"$", "~$", "&$", "=$"}[rng.Intn(4)]
		return c06op{"reduce chain " + ch, fmt.Sprintf("%s%s(%s){|acc, x| acc + [x]}", n("arr", "str", "obj"), ch, n("arr"))}
	case 10:
		ch := []string{".", "~.", "&.", "=."}[rng.Intn(4)]
		return c06op{"scalar chain " + ch, fmt.Sprintf("%s%s{|x| x}", n(), ch)}
	case 11:
		// slicing followed by + / * on the slice and on its source
		op := []string{"+", "*"}[rng.Intn(2)]
		arg := n("arr")
		if op == "*" {
			arg = fmt.Sprint(rng.Intn(3))
		}
		return c06op{"Arr slice then " + op, fmt.Sprintf("%s[%s:%s] %s %s", n("arr", "str"), small(), small(), op, arg)}
	case 12:
		// the same source used twice (capacity sharing pattern)
		a := n("arr", "str")
		op := []string{"+", "*"}[rng.Intn(2)]
		if op == "+" {
			return c06op{"same source + twice", fmt.Sprintf("[%s + %s, %s + %s]", a, n("arr", "str"), a, n("arr", "str"))}
		}
		return c06op{"same source * twice", fmt.Sprintf("[%s * 2, %s * 3]", a, a)}
	case 13:
		if rng.Intn(3) == 0 {
			// property call with two ** expansions (built-in and user callee)
			return c06op{"prop call with two ** expansions", fmt.Sprintf("%s.p(**%s, **%s)", n(), n("obj"), n("obj"))}
		}
		p := []string{"bear", "bro", "new", "patch", "del", "digest", "assign", "append", "T", "rev", "sort", "uniq", "A", "O", "M", "S", "keys", "values", "items", "proto"}[rng.Intn(20)]
		return c06op{"prop " + p, fmt.Sprintf("%s.%s(%s)", n(), p, n())}
	case 14:
		op := gInfix[rng.Intn(len(gInfix))]
		if rng.Intn(2) == 0 {
			// operands of one numeric/str/arr family (the operator's own code path instead of its type error)
			fam := [][]string{{"int"}, {"int", "float"}, {"float"}, {"str"}, {"arr"}}[rng.Intn(5)]
			return c06op{"infix " + op, fmt.Sprintf("%s %s %s", n(fam...), op, n(fam...))}
		}
		return c06op{"infix " + op, fmt.Sprintf("%s %s %s", n(), op, n())}
	default:
		return c06op{"closure capture + call", fmt.Sprintf("{|d| [%s, d, %s]}(%s)", n(), n(), n())}
	}
}

func init() {
	fw.Register(&fw.Prop{
		ID:    "C06",
		Level: "exploration",
		Rule: "histories of 10–60 top-level statements `hK := <op over earlier values>` (ops: every built-in/native property found at run time applied in 7 call forms, literals that unpack earlier values, calls through */**/kwargs, all chain contexts, slicing followed by +/* on slice and source, the same source used twice, infix operators, closures) with every result kept alive and aliased in a holder array; " +
			"after every statement a structural monitor walks everything reachable from the scope and compares the shallow fingerprint (type, payload, proto, ordered child pointers, key lists) of every previously seen object, and Inspect() of every bound variable must stay byte-identical. " +
			"non-trivial = the statement returned a non-error value while ≥1 earlier container was reachable; distinct = distinct (op label, receiver family) pairs executed that way" +
			" Added: index by an earlier value, same-family and small-int arithmetic, stored caught errors raised again (their stack trace is part of the fingerprint), and self-checking statements that keep what each step of one chain received and compare at the end of the chain. Sixth round: == / != / === between values of one family (equal copies included), plain and as a self-check listing both operands again.",
		Assumptions: []string{
			"exempt by the statement: variable frames (reassignment) and iterators (next/recur); stack-trace text of error objects is not part of the fingerprint (C19)",
			"the monitor only sees exported fields (Elems, Pairs, Keys, PrivateKeys, HashKeys, NonHashablePairs, Start/Stop/Step, Env, ErrKind/Msg, Proto())",
		},
		CaseTimeout: 30 * 1e9,
		Floor: func(m *fw.Merged) string {
			if m.Counters["statements_returning_values"] < 8000 || m.Counters["objects_fingerprinted"] < 100000 {
				return fmt.Sprintf("observed too little: %v", m.Counters)
			}
			return ""
		},
		Run: runC06,
	})
}

func runC06(w *fw.W) {
	var ip *interp.Interp
	var pool *Pool
	var cat []catEntry
	// values read from standard input are values like any other: lines kept while more input is read (past
	// any buffer size of the reader) still are what was read
	for _, nlines := range []int{3, 120, 400, 3000} {
		if !w.Take() {
			continue
		}
		if ip == nil {
			ip = interp.New()
			pool, _ = BuildPool(ip, false)
			cat = c01catalogue(ip)
		}
		w.Begin(fmt.Sprintf("stdin lines kept: %d lines", nlines), map[string]any{"lines": nlines})
		var vs violSet
		var in strings.Builder
		var want []string
		for i := 0; i < nlines; i++ {
			l := fmt.Sprintf("row %04d %s", i, strings.Repeat(string(rune('a'+i%26)), 5+i%37))
			in.WriteString(l + "\n")
			want = append(want, `"`+l+`"`)
		}
		wantIns := "[" + strings.Join(want, ", ") + "]"
		n := 0
		for _, prog := range []string{"<>@{\\}", "<>$([]){|acc, l| [*acc, l]}", "<>@{|l| [l]}@{|a| a[0]}", "keep := []\n<>@{|l| keep := [l]; l}",
			"first := <>.S\nrest := <>@{\\}\n[first, *rest]", "<>@{|l| {line: l}}@{|o| o.line}", "<>@{|l| l + \"\"}"} {
			o := ip.Run(prog, interp.Options{Stdin: strings.NewReader(in.String()), Fuel: -1})
			n++
			if !o.OK() || o.Inspect != wantIns {
				vs.add("C06|stdin-line-changed-after-being-read", fmt.Sprintf("program `%s` over %d stdin lines: the kept lines are not the lines read: got %s", prog, nlines, truncateMid(o.Outcome(), 300)), map[string]any{"program": prog, "lines": nlines})
			}
		}
		r := fw.Result{Verdict: fw.Held, Evals: n, Counters: map[string]int{"stdin_retention_programs": n}, DKeys: []string{fmt.Sprintf("stdin-lines|%d", nlines)}}
		vs.finish(&r)
		w.End(r)
	}
	nh := w.Pick(800, 16000)
	for h := 0; h < nh; h++ {
		if !w.Take() {
			continue
		}
		if ip == nil {
			ip = interp.New()
			pool, _ = BuildPool(ip, false)
			cat = c01catalogue(ip)
		}
		rng := w.Rand()
		w.Begin(fmt.Sprintf("history %d", h), map[string]any{"history": h})
		env := pool.Scope()
		hp := &Pool{Vals: append([]*PoolVal{}, pool.Vals...), Env: env, IP: ip}
		snap := walk.New()
		snap.WalkEnv(env, nil) // scope, pool scope, const env (prototypes)
		inspects := map[string]string{}
		for _, v := range pool.Vals {
			if !walk.Exempt(v.Val) {
				inspects[v.Name] = interp.SafeInspect(v.Val)
			}
		}
		nst := 10 + rng.Intn(51)
		var vs violSet
		dk := map[string]struct{}{}
		values, errs, cut := 0, 0, 0
		var lines []string
		ip.Run("hold := []\nkeepPair := {|p| [*p[0], [p, p[1].S]]}", interp.Options{Env: env})
		for s := 0; s < nst; s++ {
			op := c06gen(rng, hp, cat)
			name := fmt.Sprintf("h%d", s)
			stmt := name + " := " + op.src
			lines = append(lines, stmt)
			w.Note(strings.Join(lines, "\n"))
			o := ip.Run(stmt, interp.Options{Env: env, Fuel: 100000})
			switch {
			case o.Cutoff != "":
				cut++
			case o.Panic != "" || o.NilVal:
				// C01's subject; the history continues
				errs++
			case o.Err != nil || o.ParseErr != "":
				errs++
			default:
				values++
				if op.label == c06selfCheck && strings.Contains(o.Inspect, "false") {
					vs.add("C06|changed-within-one-statement|"+op.label,
						fmt.Sprintf("statement %q: a value kept from an earlier step of the chain prints differently at the end of the chain (result %s)\nhistory:\n%s", stmt, truncateMid(o.Inspect, 200), strings.Join(lines, "\n")),
						map[string]any{"history": lines})
				}
				fam := familyOf(o.Val)
				hp.Vals = append(hp.Vals, &PoolVal{Name: name, Src: op.src, Family: fam, Tags: map[string]bool{}, Val: o.Val})
				if !walk.Exempt(o.Val) {
					inspects[name] = interp.SafeInspect(o.Val)
				}
				ip.Run("hold := [*hold, "+name+"]", interp.Options{Env: env})
				dk[op.label+"|"+fam] = struct{}{}
			}
			// quiescent point: structural comparison of everything seen so far
			for _, ch := range snap.Diff() {
				vs.add("C06|mutated:"+familyOf(ch.Obj)+"|by:"+op.label,
					fmt.Sprintf("statement %q changed an existing %s value\n  before: %s\n  after:  %s\nhistory:\n%s", stmt, familyOf(ch.Obj), truncateMid(ch.Before, 400), truncateMid(ch.After, 400), strings.Join(lines, "\n")),
					map[string]any{"history": lines})
			}
			if len(vs.list) > 0 {
				snap.Refresh()
			}
			snap.ResetEnvs()
			snap.WalkEnv(env, nil)
			// boundary cross-check
			for vn, before := range inspects {
				v, ok := env.Get(object.GetSymHash(vn))
				if !ok {
					continue
				}
				if now := interp.SafeInspect(v); now != before {
					vs.add("C06|prints-differently:"+familyOf(v)+"|by:"+op.label,
						fmt.Sprintf("after %q the earlier value %s prints %s, before it printed %s\nhistory:\n%s", stmt, vn, truncateMid(now, 300), truncateMid(before, 300), strings.Join(lines, "\n")),
						map[string]any{"history": lines})
					inspects[vn] = now
				}
			}
		}
		r := fw.Result{Verdict: fw.Held, Evals: nst, Counters: map[string]int{"statements": nst, "statements_returning_values": values, "statements_erroring": errs,
			"statements_cut_off": cut, "objects_fingerprinted": len(snap.FP), "histories": 1}}
		for k := range dk {
			r.DKeys = append(r.DKeys, k)
		}
		if h%40 == 0 && len(lines) > 3 {
			r.Sample = map[string]any{"history_head": lines[:4], "statements": nst, "values": values, "objects_watched": len(snap.FP)}
		}
		vs.finish(&r)
		w.End(r)
	}
}
