package props

import (
	"bytes"
	"fmt"
	"github.com/Syuparn/pangaea/runscript"
	"math"
	"math/big"
	"math/rand"
	"regexp"
	"strconv"
	"strings"

	"github.com/Syuparn/pangaea/object"

	"verif/fw"
	"verif/interp"
)

// C17 — literals and names denote what their spelling says.
// Oracle: math/big / strconv.ParseFloat / constructed string contents, independent of /repo's parser.

var c17reserved = []string{"if", "else", "return", "raise", "yield", "defer"}

type c17case struct {
	kind string // int | float | str | name
	src  string // spelling
	// expectations
	wantInt   *big.Int
	wantFloat float64
	floatOver bool
	wantStr   string
	strClass  string // documented | go-escape | undefined-escape
	strPlain  string // non-escape characters in order (for go-escape)
	form      string // sub-form label (key + distinct)
}

func usep(rng *rand.Rand, digits string) string {
	// insert `_` separators at legal places (between two digits)
	if len(digits) < 2 || rng.Intn(2) == 0 {
		return digits
	}
	var b strings.Builder
	for i, c := range digits {
		b.WriteRune(c)
		if i < len(digits)-1 && rng.Intn(3) == 0 {
			b.WriteByte('_')
		}
	}
	return b.String()
}

func c17intValue(rng *rand.Rand) *big.Int {
	max := new(big.Int).Lsh(big.NewInt(1), 63)
	switch rng.Intn(10) {
	case 0:
		return big.NewInt(int64(rng.Intn(1000)))
	case 1:
		return new(big.Int).SetUint64(rng.Uint64() >> 1)
	case 2: // around 2^53
		return big.NewInt((1 << 53) + int64(rng.Intn(9)-4))
	case 3: // around 2^63 (both sides)
		return new(big.Int).Add(max, big.NewInt(int64(rng.Intn(7)-4)))
	case 4: // out of range
		z := new(big.Int).Lsh(big.NewInt(1), uint(64+rng.Intn(20)))
		return z.Add(z, big.NewInt(int64(rng.Intn(1000))))
	case 5:
		return new(big.Int).SetUint64(rng.Uint64() >> uint(rng.Intn(63)+1))
	case 6:
		return big.NewInt(math.MaxInt64 - int64(rng.Intn(3)))
	case 7: // 10^k neighbours
		z := new(big.Int).Exp(big.NewInt(10), big.NewInt(int64(rng.Intn(22))), nil)
		return z.Add(z, big.NewInt(int64(rng.Intn(3)-1))).Abs(z)
	case 8:
		return big.NewInt(int64(rng.Uint32()))
	default:
		return new(big.Int).SetUint64(rng.Uint64())
	}
}

func genInt(rng *rand.Rand) c17case {
	v := c17intValue(rng)
	c := c17case{kind: "int", wantInt: v}
	switch rng.Intn(6) {
	case 0, 1:
		c.form = "dec"
		s := v.Text(10)
		if rng.Intn(8) == 0 {
			s = strings.Repeat("0", 1+rng.Intn(3)) + s
			c.form = "dec-leading-zeros"
		}
		c.src = usep(rng, s)
	case 2:
		c.form = "hex"
		s := v.Text(16)
		if rng.Intn(2) == 0 {
			s = strings.ToUpper(s)
		}
		c.src = []string{"0x", "0X"}[rng.Intn(2)] + usep(rng, s)
	case 3:
		c.form = "oct"
		c.src = []string{"0o", "0O"}[rng.Intn(2)] + usep(rng, v.Text(8))
	case 4:
		c.form = "bin"
		c.src = []string{"0b", "0B"}[rng.Intn(2)] + usep(rng, v.Text(2))
	default:
		// exponent form denoting an integer: mantissa m, exponent e with m*10^e = v (e>=0),
		// or m*10^-k with m divisible by 10^k
		c.form = "exp"
		if rng.Intn(3) == 0 {
			k := 1 + rng.Intn(4)
			m := new(big.Int).Mul(v, new(big.Int).Exp(big.NewInt(10), big.NewInt(int64(k)), nil))
			c.src = usep(rng, m.Text(10)) + []string{"e", "E"}[rng.Intn(2)] + "-" + strconv.Itoa(k)
			c.form = "exp-neg"
		} else {
			// strip up to e trailing zeros from v
			s := v.Text(10)
			e := 0
			for len(s) > 1 && strings.HasSuffix(s, "0") && rng.Intn(4) != 0 {
				s = s[:len(s)-1]
				e++
			}
			if e == 0 && rng.Intn(2) == 0 {
				// multiply instead: value becomes v*10^e
				e = 1 + rng.Intn(18)
				c.wantInt = new(big.Int).Mul(v, new(big.Int).Exp(big.NewInt(10), big.NewInt(int64(e)), nil))
			}
			c.src = usep(rng, s) + []string{"e", "E"}[rng.Intn(2)] + strconv.Itoa(e)
		}
	}
	return c
}

// genFloatMidpoint writes a literal that lies a hair above (or below) the exact midpoint of two adjacent float64
// values: the nearest float is decided by that hair, which any rounding through an intermediate precision loses.
func genFloatMidpoint(rng *rand.Rand) c17case {
	c := c17case{kind: "float", form: "midpoint-plus-epsilon"}
	// a float in [1, 2^20) with a random mantissa
	f := math.Float64frombits(uint64(1023+rng.Intn(20))<<52 | uint64(rng.Int63())&(1<<52-1))
	next := math.Nextafter(f, math.Inf(1))
	mid := new(big.Float).SetPrec(200).SetFloat64(f)
	mid.Add(mid, new(big.Float).SetPrec(200).SetFloat64(next))
	mid.Quo(mid, big.NewFloat(2))
	txt := mid.Text('f', 80) // exact: a midpoint of doubles below 2^20 has at most 53+20 fractional bits
	txt = strings.TrimRight(txt, "0")
	if !strings.Contains(txt, ".") {
		txt += ".0"
	}
	if rng.Intn(2) == 0 {
		c.src = txt + "000000001" // above the midpoint
	} else {
		// below the midpoint: decrement the last digit and append nines
		b := []byte(txt)
		i := len(b) - 1
		for b[i] == '0' || b[i] == '.' {
			i--
		}
		b[i]--
		c.src = string(b) + "999999999"
		c.form = "midpoint-minus-epsilon"
	}
	f2, _ := strconv.ParseFloat(c.src, 64)
	c.wantFloat = f2
	return c
}

func genFloat(rng *rand.Rand) c17case {
	if rng.Intn(4) == 0 {
		return genFloatMidpoint(rng)
	}
	c := c17case{kind: "float"}
	digits := func(n int) string {
		var b strings.Builder
		for i := 0; i < n; i++ {
			b.WriteByte(byte('0' + rng.Intn(10)))
		}
		return b.String()
	}
	ip := digits(1 + rng.Intn(4))
	if rng.Intn(6) == 0 {
		ip = digits(15 + rng.Intn(10))
	}
	fp := digits(1 + rng.Intn(6))
	if rng.Intn(5) == 0 {
		fp = digits(15 + rng.Intn(8))
	}
	src := usep(rng, ip) + "." + usep(rng, fp)
	clean := ip + "." + fp
	c.form = "plain"
	if rng.Intn(2) == 0 {
		e := rng.Intn(40)
		switch rng.Intn(8) {
		case 0:
			e = 290 + rng.Intn(30)
		case 1:
			e = 380 + rng.Intn(40) // overflow unless mantissa is 0
		case 2:
			e = 320 + rng.Intn(10)
		}
		sign := ""
		if rng.Intn(2) == 0 {
			sign = "-"
		}
		es := []string{"e", "E"}[rng.Intn(2)] + sign + strconv.Itoa(e)
		src += es
		clean += "e" + sign + strconv.Itoa(e)
		c.form = "exp"
	}
	c.src = src
	f, err := strconv.ParseFloat(clean, 64)
	c.wantFloat = f
	if err != nil && math.IsInf(f, 0) {
		c.floatOver = true
		c.form += "-overflow"
	}
	return c
}

var c17plainRunes = []rune("abcXYZ019 _-+*/=<>()[]{}|&^%$@!?~.,:;'`#日本語éß€😀")

func genStr(rng *rand.Rand) c17case {
	c := c17case{kind: "str", strClass: "documented", form: "documented-escapes"}
	var src, want, plain strings.Builder
	src.WriteByte('"')
	n := rng.Intn(12)
	mode := rng.Intn(10)
	for i := 0; i < n; i++ {
		if mode == 2 && rng.Intn(3) == 0 {
			// an interpolation between the characters (right after an escape, before a quote, …) adds its value
			// and leaves the characters around it as they are
			src.WriteString("#{7}")
			want.WriteString("7")
			plain.WriteString("7")
			c.form = "documented-escapes+interpolation"
		}
		switch r := rng.Intn(10); {
		case r < 6:
			ch := c17plainRunes[rng.Intn(len(c17plainRunes))]
			if ch == '#' && mode == 2 {
				ch = 'h' // (a `#` after an interpolation is a known lexer quirk outside this property's literals)
			}
			if ch == '#' {
				// `#` not followed by `{` is an ordinary character
				src.WriteString("#")
				want.WriteString("#")
				plain.WriteString("#")
				nx := []rune("a 1#")[rng.Intn(4)]
				src.WriteRune(nx)
				want.WriteRune(nx)
				plain.WriteRune(nx)
				continue
			}
			src.WriteRune(ch)
			want.WriteRune(ch)
			plain.WriteRune(ch)
		case r < 9:
			esc := []struct{ s, v string }{{`\n`, "\n"}, {`\t`, "\t"}, {`\\`, `\`}, {`\"`, `"`}}[rng.Intn(4)]
			src.WriteString(esc.s)
			want.WriteString(esc.v)
		default:
			if mode == 0 {
				e := []string{`\r`, `\a`, `\b`, `\f`, `\v`, `\x41`, `é`, `\101`, `\'`, `\xe3\x81\x82`, `\303\251`, `\u3042`, `\U0001F600`, `\x80`, `\377`, `\xc3\xa9`}[rng.Intn(16)]
				src.WriteString(e)
				c.strClass, c.form = "go-escape", "go-style-escape"
			} else if mode == 1 {
				e := []string{`\d`, `\q`, `\z`, `\-`, `\ `, `\e`, `\w`, `\1x`, `\xZZ`, `\u12z`, `\p`}[rng.Intn(11)]
				src.WriteString(e)
				c.strClass, c.form = "undefined-escape", "undefined-escape"
			} else {
				src.WriteString("q")
				want.WriteString("q")
				plain.WriteString("q")
			}
		}
	}
	src.WriteByte('"')
	c.src, c.wantStr, c.strPlain = src.String(), want.String(), plain.String()
	if strings.HasSuffix(c.strClass, "escape") && c.strClass != "documented" {
		// an undefined escape dominates
		if strings.Contains(c.form, "undefined") {
			c.strClass = "undefined-escape"
		}
	}
	return c
}

// nameForm refines the form label of names with leading underscores.
func nameForm(name, form string) string {
	if !strings.HasPrefix(name, "_") {
		return form
	}
	t := strings.TrimLeft(name, "_")
	switch {
	case t == "!" || t == "?":
		return "underscores-bang"
	case t != "" && t[0] >= '0' && t[0] <= '9':
		return "underscore-digit"
	}
	return "underscore-prefix"
}

func genName(rng *rand.Rand) c17case {
	letters := "abcdefghijklmnopqrstuvwxyzABCDEFGHIJKLMNOPQRSTUVWXYZ"
	rest := letters + "0123456789_"
	var b strings.Builder
	form := "random"
	switch rng.Intn(6) {
	case 0: // reserved word as proper prefix
		b.WriteString(c17reserved[rng.Intn(len(c17reserved))])
		form = "reserved-prefix"
	case 1: // leading underscores
		b.WriteString(strings.Repeat("_", 1+rng.Intn(2)))
		form = "underscore-prefix"
	case 2: // reserved word inside / as suffix
		b.WriteByte(letters[rng.Intn(len(letters))])
		b.WriteString(c17reserved[rng.Intn(len(c17reserved))])
		form = "reserved-infix"
	default:
		b.WriteByte(letters[rng.Intn(len(letters))])
	}
	n := rng.Intn(6)
	if form == "reserved-prefix" && n == 0 && rng.Intn(2) == 0 {
		n = 1
	}
	for i := 0; i < n; i++ {
		b.WriteByte(rest[rng.Intn(len(rest))])
	}
	if rng.Intn(5) == 0 {
		b.WriteByte("!?"[rng.Intn(2)])
	}
	name := b.String()
	if name == "_" {
		name = "_a"
	}
	for _, r := range c17reserved {
		if name == r {
			name += "x"
		}
	}
	form = nameForm(name, form)
	return c17case{kind: "name", src: name, form: form}
}

// fixed tables (exhaustive in both tiers)
func c17fixed() []c17case {
	var out []c17case
	bi := func(s string) *big.Int { z, _ := new(big.Int).SetString(s, 10); return z }
	ints := []struct{ src, val, form string }{
		{"9223372036854775807", "9223372036854775807", "dec"}, {"9223372036854775808", "9223372036854775808", "dec"},
		{"99999999999999999999", "99999999999999999999", "dec"}, {"0x7fffffffffffffff", "9223372036854775807", "hex"},
		{"0x8000000000000000", "9223372036854775808", "hex"}, {"0xFFFF_FFFF_FFFF_FFFF", "18446744073709551615", "hex"},
		{"0o777777777777777777777", "9223372036854775807", "oct"}, {"0o1000000000000000000000", "9223372036854775808", "oct"},
		{"0b" + strings.Repeat("1", 63), "9223372036854775807", "bin"}, {"0b1" + strings.Repeat("0", 63), "9223372036854775808", "bin"},
		{"1e18", "1000000000000000000", "exp"}, {"1e19", "10000000000000000000", "exp"}, {"9e18", "9000000000000000000", "exp"},
		{"9007199254740993e0", "9007199254740993", "exp"}, {"5e3", "5000", "exp"}, {"100e-2", "1", "exp-neg"}, {"12_0E1", "1200", "exp"},
		{"1_000_000", "1000000", "dec"}, {"0", "0", "dec"}, {"0x0", "0", "hex"}, {"0b0", "0", "bin"}, {"0o0", "0", "oct"}, {"0e0", "0", "exp"},
		{"9223372036854775807e0", "9223372036854775807", "exp"}, {"922337203685477580700e-2", "9223372036854775807", "exp-neg"},
		{"1e30", "1000000000000000000000000000000", "exp"}, {"0xff", "255", "hex"}, {"0b100", "4", "bin"}, {"0o10", "8", "oct"}, {"1e3", "1000", "exp"},
	}
	for _, i := range ints {
		out = append(out, c17case{kind: "int", src: i.src, wantInt: bi(i.val), form: i.form})
	}
	for _, f := range []string{"1.5e400", "1.0e308", "1.7976931348623157e308", "1.8e308", "4.9e-324", "1.0e-400", "0.1", "1.23", "1_234.567", "1.0e-3", "123456789012345678.0", "0.30000000000000004", "1.1e-3", "2.5e-5", "9007199254740993.0"} {
		clean := strings.ReplaceAll(f, "_", "")
		v, err := strconv.ParseFloat(clean, 64)
		c := c17case{kind: "float", src: f, wantFloat: v, form: "table"}
		if err != nil && math.IsInf(v, 0) {
			c.floatOver, c.form = true, "table-overflow"
		}
		out = append(out, c)
	}
	strs := []struct{ src, want, class, plain string }{
		{`"a\db"`, "", "undefined-escape", "ab"}, {`"\q"`, "", "undefined-escape", ""}, {`"x\zy"`, "", "undefined-escape", "xy"}, {`"\-"`, "", "undefined-escape", ""},
		{`"a\nb"`, "a\nb", "documented", ""}, {`"\\n"`, `\n`, "documented", ""}, {`"\"q\""`, `"q"`, "documented", ""}, {`"tab\there"`, "tab\there", "documented", ""},
		{`"# not embedded"`, "# not embedded", "documented", ""}, {`"a#b"`, "a#b", "documented", ""}, {`""`, "", "documented", ""}, {`"日本語\n€"`, "日本語\n€", "documented", ""},
		{`"a\rb"`, "", "go-escape", "ab"}, {`"\x41B"`, "", "go-escape", "B"}, {`"éé"`, "", "go-escape", "é"},
		{`"\xe3\x81\x82"`, "", "go-escape", ""}, {`"caf\303\251"`, "", "go-escape", "caf"}, {`"\u3042!"`, "", "go-escape", "!"}, {`"a\xffb"`, "", "go-escape", "ab"},
	}
	for _, s := range strs {
		form := map[string]string{"documented": "documented-escapes", "go-escape": "go-style-escape", "undefined-escape": "undefined-escape"}[s.class]
		out = append(out, c17case{kind: "str", src: s.src, wantStr: s.want, strClass: s.class, strPlain: s.plain, form: form})
	}
	// literals and names longer than any buffer a reader might use: the spelling still denotes what it says
	for _, L := range []int{3000, 4090, 4096, 4100, 6000, 9003, 70000} {
		unit, val := `ab\n"c\\é`, "ab\n\"c\\é"
		_ = unit
		var src, want strings.Builder
		src.WriteByte('"')
		for src.Len() < L {
			src.WriteString("ab\\n\\\"c\\\\d")
			want.WriteString("ab\n\"c\\d")
		}
		_ = val
		src.WriteByte('"')
		out = append(out, c17case{kind: "str", src: src.String(), wantStr: want.String(), strClass: "documented", form: "long-documented-escapes"})
		digits := strings.Repeat("1234567890", L/10)
		fl := "0." + digits
		v, _ := strconv.ParseFloat(fl, 64)
		out = append(out, c17case{kind: "float", src: fl, wantFloat: v, form: "long-table"})
		fl2 := "1" + strings.Repeat("_000", L/4) + ".5"
		v2, err2 := strconv.ParseFloat(strings.ReplaceAll(fl2, "_", ""), 64)
		c2 := c17case{kind: "float", src: fl2, wantFloat: v2, form: "long-table"}
		if err2 != nil && math.IsInf(v2, 0) {
			c2.floatOver, c2.form = true, "table-overflow"
		}
		out = append(out, c2)
		out = append(out, c17case{kind: "int", src: strings.Repeat("0_", L/2) + "42", wantInt: bi("42"), form: "dec"})
		if L <= 9003 {
			out = append(out, c17case{kind: "name", src: "n" + strings.Repeat("ame_", L/4) + "x", form: "long"})
		}
	}
	sufs := []string{"fy", "_", "x", "0", "_1", "s", "ed", "where", "If", "?", "!", "x?", "2!"}
	for _, r := range c17reserved {
		for _, s := range sufs {
			out = append(out, c17case{kind: "name", src: r + s, form: "reserved-prefix"})
		}
		out = append(out, c17case{kind: "name", src: "x" + r, form: "reserved-infix"}, c17case{kind: "name", src: "_" + r, form: "underscore-prefix"}, c17case{kind: "name", src: "_" + r + "?", form: "underscore-prefix"},
			c17case{kind: "name", src: strings.ToUpper(r[:1]) + r[1:], form: "random"})
	}
	for _, n := range []string{"_1", "__", "_a", "_a1", "__x?", "_9z", "a_", "a__b", "Z9", "q!", "m", "mm", "e3", "x0b1", "true1", "nilx", "recurse", "selfish", "_0"} {
		form := nameForm(n, "random")
		out = append(out, c17case{kind: "name", src: n, form: form})
	}
	return out
}

// judge evaluates one case. Returns (violation key, detail) or "" when it held; trivial reports
// cases the oracle could not judge.
func c17judge(ip *interp.Interp, c *c17case) (key, detail string, dkey string) {
	dkey = c.kind + "|" + c.form
	switch c.kind {
	case "int":
		o := ip.Run(c.src, interp.Options{})
		if o.Panic != "" {
			return "C17|int|" + c.form + "|host-panic", c.src + " → " + o.Outcome(), dkey
		}
		if !c.wantInt.IsInt64() {
			dkey += "|out-of-range"
			if o.OK() {
				return "C17|int|" + c.form + "|out-of-range-yields-a-value", fmt.Sprintf("%s (= %s, not representable) → %s instead of an error", c.src, c.wantInt, o.Outcome()), dkey
			}
			return "", "", dkey
		}
		dkey += fmt.Sprintf("|bits%d", c.wantInt.BitLen()/8)
		pi, ok := o.Val.(*object.PanInt)
		if !o.OK() || !ok || pi.Value != c.wantInt.Int64() {
			mag := "lt2^53"
			if c.wantInt.BitLen() > 53 {
				mag = "ge2^53"
			}
			return "C17|int|" + c.form + "|wrong-value|" + mag, fmt.Sprintf("%s → %s, denotes %s", c.src, o.Outcome(), c.wantInt), dkey
		}
	case "float":
		o := ip.Run(c.src, interp.Options{})
		if o.Panic != "" {
			return "C17|float|" + c.form + "|host-panic", c.src + " → " + o.Outcome(), dkey
		}
		if c.floatOver {
			if o.OK() {
				return "C17|float|" + c.form + "|unrepresentable-yields-a-value", fmt.Sprintf("%s overflows float64 but → %s instead of an error", c.src, o.Outcome()), dkey
			}
			return "", "", dkey
		}
		pf, ok := o.Val.(*object.PanFloat)
		if !o.OK() || !ok || math.Float64bits(pf.Value) != math.Float64bits(c.wantFloat) {
			got := o.Outcome()
			if ok {
				got = strconv.FormatFloat(pf.Value, 'g', -1, 64)
			}
			return "C17|float|" + c.form + "|not-nearest", fmt.Sprintf("%s → %s, nearest float is %s", c.src, got, strconv.FormatFloat(c.wantFloat, 'g', -1, 64)), dkey
		}
	case "str":
		o := ip.Run(c.src, interp.Options{})
		if o.Panic != "" {
			return "C17|str|" + c.form + "|host-panic", c.src + " → " + o.Outcome(), dkey
		}
		ps, isStr := o.Val.(*object.PanStr)
		switch c.strClass {
		case "documented":
			if !o.OK() || !isStr || ps.Value != c.wantStr {
				return "C17|str|documented-escapes|wrong-value", fmt.Sprintf("%s → %s, want %q", c.src, o.Outcome(), c.wantStr), dkey
			}
		case "undefined-escape":
			if o.OK() {
				return "C17|str|undefined-escape|yields-a-value", fmt.Sprintf("%s contains an undefined escape but → %s instead of an error", c.src, o.Outcome()), dkey
			}
		case "go-escape":
			if o.OK() {
				if !isStr || !isSubsequence(c.strPlain, ps.Value) {
					return "C17|str|go-style-escape|loses-characters", fmt.Sprintf("%s → %s: the plain characters %q are not all kept", c.src, o.Outcome(), c.strPlain), dkey
				}
				// accepted byte / rune escapes denote exactly that byte / code point (the host's quoting rules,
				// which is what the literal decoder is defined by); anything else is a silently different value
				if gw, err := strconv.Unquote(c.src); err == nil && ps.Value != gw {
					return "C17|str|go-style-escape|wrong-value", fmt.Sprintf("%s → %q (% x), the escapes denote %q (% x)", c.src, ps.Value, ps.Value, gw, gw), dkey
				}
			}
		}
	case "name":
		n := c.src
		progs := []struct{ src, wantIns, wantOut, what string }{
			{n + " := 7; " + n, "7", "", "variable"},
			{n + " := 2; " + n + ".p", "", "2\n", "variable-print"},
			{"{" + n + ": 7}." + n, "7", "", "property"},
			{"'" + n, `"` + n + `"`, "", "symbol"},
			{"{|" + n + "| " + n + "}(7)", "7", "", "parameter"},
			{"{|k, " + n + ": 1| " + n + "}(0, " + n + ": 7)", "7", "", "keyword-parameter"},
			{"{" + n + ": 7}.keys(private?: true)", `["` + n + `"]`, "", "property-listed"},
			{"[{" + n + ": 7}]@" + n, "[7]", "", "property-in-list-chain"},
			{"{" + n + ": 7}['" + n + "]", "7", "", "symbol-index"},
		}
		if !strings.HasPrefix(n, "_") {
			progs = append(progs, struct{ src, wantIns, wantOut, what string }{"{" + n + ": 7, _zz: 1}.keys", `["` + n + `"]`, "", "public-property-listed"},
				struct{ src, wantIns, wantOut, what string }{"[{" + n + ": 7}].map('" + n + ")", "[7]", "", "symbol-as-function"},
				struct{ src, wantIns, wantOut, what string }{"'" + n + ".sym?", "true", "", "symbol-predicate"})
		} else {
			progs = append(progs, struct{ src, wantIns, wantOut, what string }{"{" + n + ": 7, zz: 1}.keys", `["zz"]`, "", "private-property-not-listed"})
			if reC17private.MatchString(n) {
				// one underscore, a letter, then letters/digits/underscores and an optional ?/!: a (private) symbol
				progs = append(progs, struct{ src, wantIns, wantOut, what string }{"'" + n + ".sym?", "true", "", "symbol-predicate"},
					struct{ src, wantIns, wantOut, what string }{"[{" + n + ": 7}].map('" + n + ")", "[7]", "", "symbol-as-function"},
					struct{ src, wantIns, wantOut, what string }{"'" + n + "({" + n + ": 7})", "7", "", "symbol-called"})
			}
		}
		_, predefined := ip.Const.Get(object.GetSymHash(n))
		for _, p := range progs {
			if predefined && p.what == "variable-print" {
				// rebinding a built-in name (e.g. `IO`) legitimately changes what built-ins see
				continue
			}
			o := ip.Run(p.src, interp.Options{})
			bad := !o.OK()
			if !bad && p.wantIns != "" && o.Inspect != p.wantIns {
				bad = true
			}
			if !bad && p.wantOut != "" && o.Stdout != p.wantOut {
				bad = true
			}
			if bad {
				sym := "rejected"
				if o.OK() {
					sym = "means-something-else"
				}
				return "C17|name|" + c.form + "|" + p.what + "|" + sym, fmt.Sprintf("name %q: `%s` → %s stdout=%q", n, p.src, o.Outcome(), o.Stdout), dkey
			}
		}
		dkey += "|" + n
	}
	return "", "", dkey
}

var reC17private = regexp.MustCompile(`^_[a-zA-Z][a-zA-Z0-9_]*[!?]?$`)

func isSubsequence(sub, s string) bool {
	sr, r := []rune(sub), []rune(s)
	i := 0
	for _, c := range r {
		if i < len(sr) && sr[i] == c {
			i++
		}
	}
	return i == len(sr)
}

func init() {
	fw.Register(&fw.Prop{
		ID:    "C17",
		Level: "exploration",
		Rule: "literal spellings generated from the documented forms (decimal/0b/0o/0x with `_` separators and both letter cases, exponent forms denoting integers, values across [0, 2^63) plus out-of-range; " +
			"floats plain/exponent incl. many digits and overflow; double-quoted strings over ASCII/multi-byte text with the escapes \\n \\t \\\\ \\\", Go-style and undefined escapes; " +
			"names from [a-zA-Z_][a-zA-Z0-9_]*[!?]? minus reserved words, incl. every reserved word as proper prefix) evaluated on the real parser+evaluator; " +
			"fixed boundary and reserved-prefix tables are exhaustive in both tiers. non-trivial = judged by the oracle; distinct = distinct (kind, form, magnitude class or name) tuples" +
			" Added: accepted byte/rune escapes must denote exactly the host decoding; names as listed keys, in list chains, as symbol functions. Sixth round: strings, floats, ints and names of 3000–70000 bytes in the fixed table.",
		Assumptions: []string{
			"math/big parse of the cleaned spelling is the integer reference; strconv.ParseFloat (correctly rounded) is the float reference",
			"documented escapes are \\n \\t \\\\ \\\" (docs/reference/string.md shows \\n, \\\\ and \\\"; \\t is the conventional fourth)",
			"char literals (?x) and raw strings are not judged for escapes",
		},
		Floor: func(m *fw.Merged) string {
			if m.Counters["fixed_table"] == 0 || m.Counters["judged"] < 3000 {
				return fmt.Sprintf("judged=%d fixed_table=%d", m.Counters["judged"], m.Counters["fixed_table"])
			}
			return ""
		},
		Run: runC17,
	})
}

func runC17(w *fw.W) {
	var ip *interp.Interp
	// literals typed into the REPL denote what they denote in a script: blanks and line breaks inside a
	// literal (a char literal that is a blank at the end of the line, indented / blank-ended lines of a raw string)
	if w.Take() {
		w.Begin("literals through the REPL", nil)
		var vs violSet
		type lit struct {
			lines       []string
			probe, want string
		}
		n := 0
		// raw strings keep every character between the back quotes (line breaks of any spelling, backslashes, quotes)
		for ri, raw := range []string{"a\r\nb", "GET / HTTP/1.1\r\nHost: x\r\n\r\n", "a\rb", "a\nb", "\r\n", "tab\there \\n \"q\" #1", "  lead\r\n  trail  ", "é\r\n日"} {
			if ip == nil {
				ip = interp.New()
			}
			src := "r := `" + raw + "`\n[r.len, r == \"" + strings.NewReplacer("\\", "\\\\", "\"", "\\\"", "\r", "\\r", "\n", "\\n", "\t", "\\t", "#{", "#\\{").Replace(raw) + "\"]"
			o := ip.Run(src, interp.Options{})
			n++
			want := fmt.Sprintf("[%d, true]", len([]rune(raw)))
			if strings.Contains(raw, "#{") {
				want = "" // (interpolation text inside a raw string: only the length is judged)
				if !o.OK() || !strings.HasPrefix(o.Inspect, fmt.Sprintf("[%d,", len([]rune(raw)))) {
					vs.add("C17|raw-str|wrong-value", fmt.Sprintf("raw string %q (case %d) → %s, want length %d", raw, ri, o.Outcome(), len([]rune(raw))), src)
				}
				continue
			}
			if !o.OK() || o.Inspect != want {
				vs.add("C17|raw-str|wrong-value", fmt.Sprintf("raw string %q (case %d) → %s, want %s", raw, ri, o.Outcome(), want), src)
			}
		}
		for _, l := range []lit{
			{[]string{"sp := ? "}, `sp == " "`, "true"}, {[]string{"tb := ?\t"}, `tb == "\t"`, "true"}, {[]string{`q := "  padded  "`}, "q.len", "10"},
			{[]string{`w := "a" + ? `}, "w.len", "2"}, {[]string{"multi", "r := `a", "  two  ", "b`", "", "single"}, "r.len", "11"},
			{[]string{"multi", "r2 := `  lead", "trail  `", "", "single"}, "r2.len", "14"},
			{[]string{"s3 := `  `"}, "s3.len", "2"}, {[]string{"n7 := 0x1F "}, "n7", "31"}, {[]string{"  ind := 'sym"}, "ind", `"sym"`},
		} {
			session := strings.Join(l.lines, "\n") + "\n" + l.probe + "\n"
			var out bytes.Buffer
			runscript.StartREPL("", strings.NewReader(session), &out)
			n++
			tr := out.String()
			last := ""
			for _, ln := range strings.Split(strings.TrimSpace(tr), "\n") {
				if strings.HasPrefix(ln, ">>> ") && strings.TrimSpace(strings.TrimPrefix(ln, ">>> ")) != "" {
					last = strings.TrimSpace(strings.TrimPrefix(ln, ">>> "))
				}
			}
			if last != l.want {
				vs.add("C17|repl-literal|wrong-value", fmt.Sprintf("REPL session %q then `%s`: answered %q, the literal denotes %s", l.lines, l.probe, last, l.want), session)
			}
		}
		r := fw.Result{Verdict: fw.Held, Evals: n, Counters: map[string]int{"judged": n, "repl_literals": n}, DKeys: []string{"repl-literals"}}
		vs.finish(&r)
		w.End(r)
	}
	runBatch := func(label string, cases []c17case, counter string) {
		if ip == nil {
			ip = interp.New()
		}
		w.Begin(label, map[string]any{"batch": label})
		var vs violSet
		dk := map[string]struct{}{}
		var samples []string
		for i := range cases {
			c := &cases[i]
			w.Note(c.src)
			key, detail, dkey := c17judge(ip, c)
			if key != "" {
				vs.add(key, detail, c.src)
			} else if len(samples) < 2 && (c.kind != "name") {
				samples = append(samples, c.kind+" "+c.src+" ✓")
			}
			dk[dkey] = struct{}{}
		}
		r := fw.Result{Verdict: fw.Held, Evals: len(cases), Counters: map[string]int{"judged": len(cases)}}
		if counter != "" {
			r.Counters[counter] = len(cases)
		}
		for k := range dk {
			r.DKeys = append(r.DKeys, k)
		}
		if len(samples) > 0 {
			r.Sample = samples
		}
		vs.finish(&r)
		w.End(r)
	}
	if w.Take() {
		runBatch("fixed tables", c17fixed(), "fixed_table")
	}
	nb := w.Pick(120, 20000)
	for k := 0; k < nb; k++ {
		if !w.Take() {
			continue
		}
		rng := w.Rand()
		var cases []c17case
		for i := 0; i < 125; i++ {
			switch i % 4 {
			case 0:
				cases = append(cases, genInt(rng))
			case 1:
				cases = append(cases, genFloat(rng))
			case 2:
				cases = append(cases, genStr(rng))
			default:
				cases = append(cases, genName(rng))
			}
		}
		runBatch(fmt.Sprintf("generated batch %d", k), cases, "")
	}
}
