package props

import (
	"bytes"
	"fmt"
	"github.com/Syuparn/pangaea/runscript"
	"os"
	"path/filepath"
	"strings"

	"github.com/Syuparn/pangaea/object"

	"verif/fw"
	"verif/interp"
	"verif/walk"
)

// C07 — raised errors stop evaluation and reach the nearest handler (fail-stop).
// Exhaustive fault placement over a catalogue of construct templates; temporal oracle on
// the stdout marker sequence + delivered outcome + residue scan for stored error objects.

const c07prelude = `T := {|i, v| "T#{i}".p; v}
R := {|j, v| "R#{j}".p; raise ValueErr.new("boom#{j}")}
RZ := {|j, v| "R#{j}".p; 1 / 0}
RS := {|j, v| "R#{j}".p; raise StopIterErr.new("boom#{j}")}
o := {m: m{|a, b, k: 0| [a, b, k]}, id: 1}
f := {|a, b, k: 0| [a, b, k]}
fv := {|x| x.f}
gv := {|acc, x| acc.g(x)}
gv2 := {|acc, x| acc + x}
idv := {|x| x}
pv := {|x| "CALLEE".p; 5}
pv2 := {|acc, x| "CALLEE".p; x}
`

// a template: text with holes {i:type}; benign values per type.
type c07tmpl struct {
	name  string
	text  string   // holes written as «0:int» «1:arr» …
	allow []string // markers allowed after the raise (defers registered before any fault position)
	// holes whose evaluation is conditional are listed as skip (they are not fault positions)
	noFault map[int]bool
}

var c07benign = map[string]string{"int": "1", "arr": "[1, 2]", "obj": "{a: 1}", "str": `"s"`, "true": "true", "false": "false",
	"fn": "{|x| x}", "o": "o", "nil": "nil", "sym": "'id", "map": "%{1: 2}", "two": "2", "five": "5"}

func c07templates() []c07tmpl {
	var ts []c07tmpl
	add := func(name, text string, allow ...string) {
		ts = append(ts, c07tmpl{name: name, text: text, allow: allow})
	}
	for _, op := range []string{"+", "-", "*", "/", "//", "%", "**", "==", "!=", "<", ">", "<=", ">=", "<=>", "<<", ">>", "/&", "/|", "/^", "===", "!=="} {
		add("infix "+op, "(«0:int» "+op+" «1:int»)")
	}
	add("infix &&", "(«0:true» && «1:int»)")
	add("infix ||", "(«0:false» || «1:int»)")
	add("prefix -", "-«0:int»")
	add("prefix !", "!«0:true»")
	add("array literal", "[«0:int», «1:int», «2:int»]")
	add("array unpack", "[*«0:arr», «1:int», *«2:arr»]")
	add("object values", "{a: «0:int», b: «1:int», c: «2:int»}")
	add("object unpack", "{a: «0:int», **«1:obj», **«2:obj»}")
	add("map keys and values", "%{«0:int»: «1:int», «2:str»: «3:int»}")
	add("map unpack", "%{«0:int»: «1:int», **«2:map», **«3:obj»}")
	add("range bounds", "(«0:int»:«1:five»:«2:two»)")
	add("range bounds used", "(«0:int»:«1:five»:«2:two»).A")
	add("slice bounds", "[1, 2, 3][«0:int»:«1:five»:«2:int»]")
	add("method call", "«0:o».m(«1:int», «2:int», k: «3:int»)")
	add("func call", "f(«0:int», «1:int», k: «2:int»)")
	add("call with * and **", "f(*«0:arr», **«1:obj»)")
	add("callee expression", "(«0:fn»)(«1:int»)")
	add("index", "«0:arr»[«1:int»]")
	add("chain argument reduce", "«0:arr»$(«1:int»){|a, x| a + x}")
	add("chain argument list", "«0:arr»@([])+(«1:int»)")
	add("chain argument then call args (list prop)", "«0:arr»@(«1:arr»)+(«2:int»)")
	add("chain argument then call args (reduce prop)", "«0:arr»$(«1:int»)+(«2:int»)")
	add("chain argument then args and kwargs (scalar prop)", "«0:o».(«1:int»)m(«2:int», «3:int», k: «4:int»)")
	add("chain argument then args (lonely prop)", "«0:o»&.(«1:int»)m(«2:int», k: «3:int»)")
	add("chain argument then call args (strict list prop)", "«0:arr»=@(«1:arr»)+(«2:int»)")
	add("literal call body", "[1, 2]@{|x| «0:int» + x}")
	add("var call chain arg", "«0:arr»$(«1:int»)^gv2")
	// variable-call spellings whose callee prints and does not depend on the chain argument: a raise in the chain
	// argument (or the receiver) ends the evaluation before any callee runs
	for _, ch := range []string{"", "&", "~", "="} {
		add("var call "+ch+"$ chain arg, callee ignores the accumulator", "«0:arr»"+ch+"$(«1:int»)^pv2")
		add("var call "+ch+"@ chain arg", "«0:arr»"+ch+"@(«1:arr»)^pv")
		add("var call "+ch+". chain arg", "«0:int»"+ch+".(«1:int»)^pv")
		add("literal call "+ch+". chain arg", "«0:int»"+ch+".(«1:int»){|x| \"CALLEE\".p; 5}")
		add("literal call "+ch+"@ chain arg", "«0:arr»"+ch+"@(«1:arr»){|x| \"CALLEE\".p; 5}")
	}
	add("if true branch", "(«1:int» if «0:true» else 3)")
	add("if false branch", "(3 if «0:false» else «1:int»)")
	add("if without else", "(«1:int» if «0:true»)")
	add("guarded return", "{|| return «1:int» if «0:true»; 9}()")
	add("guarded raise value", `{|| raise «1:str» if «0:true»; 9}()`)
	add("guarded yield", "<{|| yield «1:int» if «0:true»}>.new.next")
	add("guarded defer", "{|| defer «1:int» if «0:true»; 9}()")
	add("return value", "{|| return «0:int»; 9}()")
	add("embedded string", `"a#{«0:int»}b#{«1:int»}c#{«2:int»}"`)
	add("assignment", "x := «0:int»")
	add("compound assignment", "{|| x := 1; x += «0:int»; x}()")
	add("right assignment", "«0:int» => y")
	add("statements with defers", "{|| defer \"D0\".p; «0:int»; defer \"D1\".p; «1:int»; «2:int»}()", "D0", "D1")
	add("nested call defers", "{|| defer \"D0\".p; {|| defer \"D2\".p; «0:int»}(); «1:int»}()", "D0", "D2")
	add("keyword default", "{|a, k: «0:int»| a}(«1:int»)")
	add("duplicate keyword argument", "f(«0:int», «1:int», k: «2:int», k: «3:int»)")
	add("duplicate keyword default", "{|a, k: «0:int», k: «1:int»| a}(1)")
	add("duplicate object key", "{a: «0:int», a: «1:int»}")
	add("duplicate map key", "%{1: «0:int», 1: «1:int»}")
	add("statement after yield", "{|| yield «0:int»; «1:int»; 9}()")
	add("recur argument after yield", "<{|i| yield i; recur(«0:int»)}>.new(1).next")
	add("statement after return-less yield in iterator", "<{|i| yield «0:int»; «1:int»; recur(i + 1)}>.new(1).next")
	add("symbol index", "o[«0:sym»]")
	add("object of arrays", "{a: [«0:int», «1:int»], b: («2:int» + «3:int»)}")
	add("nested call arguments", "f(f(«0:int», «1:int»), [«2:int»], k: -«3:int»)")
	add("embedded in array in call", `f(["x#{«0:int»}", «1:int»], «2:int»)`)
	return ts
}

// chain templates: element k of n raises in the callee; 9 contexts × 3 call forms
func c07chainTemplates() []c07tmpl {
	var ts []c07tmpl
	el := func(k int) string { return fmt.Sprintf("{id: %d, f: m{«%d:int»}}", k, k) }
	arr := "[" + el(0) + ", " + el(1) + ", " + el(2) + "]"
	for _, ch := range []string{"@", "&@", "=@"} {
		ts = append(ts, c07tmpl{name: "list chain " + ch + " prop", text: arr + ch + "f"})
		ts = append(ts, c07tmpl{name: "list chain " + ch + " literal", text: arr + ch + "{|x| x.f}"})
		ts = append(ts, c07tmpl{name: "list chain " + ch + " var", text: arr + ch + "^fv"})
	}
	acc := "{t: 0, g: m{|x| x.f; self}}"
	for _, ch := range []string{"$", "&$", "=$"} {
		ts = append(ts, c07tmpl{name: "reduce chain " + ch + " prop", text: arr + ch + "(" + acc + ")g"})
		ts = append(ts, c07tmpl{name: "reduce chain " + ch + " literal", text: arr + ch + "(" + acc + "){|acc, x| acc.g(x)}"})
		ts = append(ts, c07tmpl{name: "reduce chain " + ch + " var", text: arr + ch + "(" + acc + ")^gv"})
	}
	// the raise comes from the receiver's iterator while it produces element k (not from the callee)
	itr := "<{|i| yield [{|| «0:int»}, {|| «1:int»}, {|| «2:int»}][i]() if i < 3; recur(i + 1)}>.new(0)"
	for _, ch := range []string{"@", "&@", "=@"} {
		ts = append(ts, c07tmpl{name: "iterator receiver list chain " + ch + " prop", text: itr + ch + "S"})
		ts = append(ts, c07tmpl{name: "iterator receiver list chain " + ch + " literal", text: itr + ch + "{|x| x}"})
		ts = append(ts, c07tmpl{name: "iterator receiver list chain " + ch + " var", text: itr + ch + "^idv"})
	}
	for _, ch := range []string{"$", "&$", "=$"} {
		ts = append(ts, c07tmpl{name: "iterator receiver reduce chain " + ch + " prop", text: itr + ch + "(0)+"})
		ts = append(ts, c07tmpl{name: "iterator receiver reduce chain " + ch + " literal", text: itr + ch + "(0){|acc, x| acc + x}"})
		ts = append(ts, c07tmpl{name: "iterator receiver reduce chain " + ch + " var", text: itr + ch + "(0)^gv2"})
	}
	ts = append(ts, c07tmpl{name: "iterator receiver A", text: itr + ".A"})
	ts = append(ts, c07tmpl{name: "iterator receiver reduce method", text: itr + ".reduce(gv2, init: 0)"})
	ts = append(ts, c07tmpl{name: "iterator receiver next x3", text: "{|it| [it.next, it.next, it.next]}(" + itr + ")"})
	// native Iterable props driving an iterator whose element k raises: the error reaches the caller, whatever
	// the library does with the elements in between
	for _, sfx := range []string{".acc({|a, x| a + x}, init: 0).A", ".all? {|x| x > 0}", ".any? {|x| x > 99}", ".append(9).A", ".avg", ".chain([9]).A", ".chunk(2).A", ".empty?",
		".exclude {|x| x > 99}", ".find {|x| x > 99}", ".index(99)", ".indices(99)", ".keyBy {|x| x}", ".lazyMap {|x| x}.A", ".last", ".map {|x| x}", ".max", ".min", ".prepend(9).A",
		".reduce({|a, x| a + x}, init: 0)", ".rindex(99)", ".select {|x| x < 99}", ".std", ".sum", ".tally", ".until {|x| x > 99}.A", ".while {|x| x < 99}.A", ".withI.A", ".zip([7, 8, 9]).A",
		".lazyMap {|x| x}.chain([9]).A", ".lazyMap {|x| x}.append(9).sum", ".withI.lazyMap {|p| p}.A",
		".first", ".doUntil {|x| x > 99}.A", ".doWhile {|x| x < 99}.A", ".flipflop({|x| x > 99}, {|x| x > 99}).A", ".each {|x| x}", ".len", ".has?(99)", ".rev", ".sort", ".uniq", ".join(\",\")", ".T", ".S"} {
		ts = append(ts, c07tmpl{name: "iterator receiver Iterable#" + sfx, text: itr + sfx})
	}
	// functions handed to the native library (predicates, patterns, callbacks): what they raise reaches the caller
	for _, cb := range []struct{ name, text string }{
		{"pattern function under ===", "5 === {|x| «0:int»; true}"}, {"pattern function under !==", "5 !== {|x| «0:int»; true}"},
		{"pattern function in case", "5.case(%{{|x| «0:int»; false}: 1, {|x| «1:int»; true}: 2})"}, {"grep with a function", "[1, 2].grep {|x| «0:int»; true}"},
		{"indices with a function element", "[{|x| «0:int»; true}].indices(3)"}, {"tap", "5.tap {|x| «0:int»}"}, {"all?", "[1, 2].all? {|x| «0:int»; true}"},
		{"any?", "[1, 2].any? {|x| «0:int»; false}"}, {"select", "[1, 2].select {|x| «0:int»; true}"}, {"exclude", "[1, 2].exclude {|x| «0:int»; false}"},
		{"find", "[1, 2].find {|x| «0:int»; false}"}, {"keyBy", "[1, 2].keyBy {|x| «0:int»; x}"}, {"map", "[1, 2].map {|x| «0:int»; x}"},
		{"acc", "[1, 2].acc({|a, x| «0:int»; a + x}, init: 0).A"}, {"reduce", "[1, 2].reduce({|a, x| «0:int»; a + x}, init: 0)"},
		{"until", "[1, 2].until {|x| «0:int»; false}.A"}, {"while", "[1, 2].while {|x| «0:int»; true}.A"}, {"doUntil", "[1, 2]._iter.doUntil {|x| «0:int»; false}.A"},
		{"doWhile", "[1, 2]._iter.doWhile {|x| «0:int»; true}.A"}, {"flipflop", "[1, 2, 3].flipflop({|x| «0:int»; true}, {|x| «1:int»; false}).A"},
		{"Str pattern", "\"ab\" === {|x| «0:int»; true}"}, {"sort with user <=>", "[{'<=>: m{|o| «0:int»; 0}}, 2].sort"},
	} {
		ts = append(ts, c07tmpl{name: "native callback: " + cb.name, text: cb.text})
	}
	// ranges over user objects: the steps (`_incBy`) and comparisons (`<=>`) the range asks of its bounds are calls
	// like any other — what they raise reaches the caller and is not kept as the range's next element
	for _, hook := range []struct{ name, obj string }{
		{"_incBy", "{_incBy: m{|s| [{|| «0:int»}, {|| «1:int»}, {|| «2:int»}][.n](); .bear({n: .n + s})}, '<=>: m{|o| .n <=> o.n}, n: 0}"},
		{"<=>", "{_incBy: m{|s| .bear({n: .n + s})}, '<=>: m{|o| [{|| «0:int»}, {|| «1:int»}, {|| «2:int»}, {|| 1}][.n](); .n <=> o.n}, n: 0}"},
	} {
		for _, use := range []struct{ name, sfx string }{{"A", ".A"}, {"list chain", "@{|x| x.n}"}, {"reduce chain", "$(0){|a, x| a + x.n}"}, {"next x4", "._iter.{|it| [it.next, it.next, it.next, it.next]}"}, {"len", ".A.len"}} {
			ts = append(ts, c07tmpl{name: "range over user objects, " + hook.name + " raises: " + use.name, text: "(" + hook.obj + ":{n: 3})" + use.sfx})
		}
	}
	ts = append(ts, c07tmpl{name: "iterator argument of chain", text: "[9].chain(" + itr + ").A"})
	ts = append(ts, c07tmpl{name: "iterator argument of zip", text: "[7, 8, 9].zip(" + itr + ").A"})
	ts = append(ts, c07tmpl{name: "raising callback of lazyMap through chain", text: "[0].chain([1, 2, 3].lazyMap {|x| [«0:int», «1:int», «2:int»][x - 1]; x}).A", noFault: map[int]bool{}})
	for _, ch := range []string{".", "&.", "=."} {
		ts = append(ts, c07tmpl{name: "scalar chain " + ch + " prop", text: "[" + el(0) + ch + "f, " + el(1) + ch + "f]"})
		ts = append(ts, c07tmpl{name: "scalar chain " + ch + " literal", text: "[" + el(0) + ch + "{|x| x.f}, " + el(1) + ch + "{|x| x.f}]"})
		ts = append(ts, c07tmpl{name: "scalar chain " + ch + " var", text: "[" + el(0) + ch + "^fv, " + el(1) + ch + "^fv]"})
	}
	return ts
}

// c07noEmbed: text that cannot be written inside an embedded-string part (quotes, braces).
func c07noEmbed(text string) bool {
	return strings.ContainsAny(text, "\"{}") || strings.Contains(text, ":fn»") || strings.Contains(text, ":obj»") || strings.Contains(text, ":map»") || strings.Contains(text, ":str»")
}

type c07hole struct {
	idx int
	typ string
}

func c07holes(text string) []c07hole {
	var hs []c07hole
	rest := text
	for {
		i := strings.Index(rest, "«")
		if i < 0 {
			break
		}
		j := strings.Index(rest, "»")
		var idx int
		var typ string
		fmt.Sscanf(strings.Replace(rest[i+len("«"):j], ":", " ", 1), "%d %s", &idx, &typ)
		hs = append(hs, c07hole{idx, typ})
		rest = rest[j+len("»"):]
	}
	return hs
}

// instantiate fills holes: fault<0 → no fault.
func c07instantiate(text string, fault int, raiser string, offset int) string {
	out := text
	for _, h := range c07holes(text) {
		fn := "T"
		if h.idx == fault {
			fn = raiser
		}
		out = strings.Replace(out, fmt.Sprintf("«%d:%s»", h.idx, h.typ), fmt.Sprintf("%s(%d, %s)", fn, h.idx+offset, c07benign[h.typ]), 1)
	}
	return out
}

func init() {
	fw.Register(&fw.Prop{
		ID:    "C07",
		Level: "fault_enumeration",
		Rule: "a catalogue of construct templates (23 infix ops, prefix, array/object/map literals with * / ** operands, range and slice bounds, receiver, chain argument, positional/keyword/* / ** arguments, callee, index, if branches, guarded return/raise/yield/defer, embedded-string parts, assignments, statements between defers, keyword defaults, pinned keys, 9 chain contexts × 3 call forms with the callee raising at element k, and one level of nesting) whose holes print a marker; a raise (ValueErr or host ZeroDivisionErr) is injected at every hole position, under three handlers (none, try, thoughtful chain). " +
			"Oracle: nothing is printed after the injected raise's marker except defers registered before it (then the handler's continuation); the delivered outcome is that error (kind, message) at top level, in the Either, or replaced by the receiver; no *PanErr is stored inside any value reachable from the result or the scope. " +
			"distinct = distinct (template, fault position, raiser, handler) tuples in which the raise marker was actually printed" +
			" Added: raises coming from the receiver's iterator (list/reduce chains × 3 forms, `.A`, `.reduce`, `next`), chain argument followed by call arguments in property form, every native Iterable prop driven by an iterator whose element k raises; thorough nests every template (incl. chain templates) in 11 outer constructs at both positions. Sixth round: variable- and literal-call spellings with a chain argument whose callee prints; ranges over user objects whose `_incBy` / `<=>` raise.",
		Assumptions: []string{
			"which markers appear before the raise marker is not judged here (evaluation order is C08's subject)",
			"errors raised inside conversion hooks the interpreter invokes itself (B, S, ==) are excluded by the statement and not used as fault positions",
		},
		Exhaustive: func(string) bool { return true },
		Floor: func(m *fw.Merged) string {
			if m.Counters["fault_cases"] < 1500 || m.Counters["raise_marker_observed"]*100 < m.Counters["fault_cases"]*90 {
				return fmt.Sprintf("fault_cases=%d raise_marker_observed=%d", m.Counters["fault_cases"], m.Counters["raise_marker_observed"])
			}
			return ""
		},
		Run: runC07,
	})
}

func runC07(w *fw.W) {
	var ip *interp.Interp
	simple := c07templates()
	all := append(append([]c07tmpl{}, simple...), c07chainTemplates()...)
	// one level of nesting: an inner template inside a hole of an outer one
	outers := []c07tmpl{{name: "array", text: "[«0:int», «1:int»]"}, {name: "infix +", text: "(«0:int» + «1:int»)"}, {name: "call args", text: "f(«0:int», k: «1:int»)"},
		{name: "embedded", text: `"p#{«0:int»}q#{«1:int»}"`}, {name: "object", text: "{a: «0:int», b: «1:int»}"}, {name: "list chain body", text: "[«0:int»]@{|x| «1:int»}"}}
	if w.Thorough() {
		outers = append(outers, c07tmpl{name: "map value", text: "%{1: «0:int», 2: «1:int»}"},
			c07tmpl{name: "func body with defer", text: "{|| defer \"D9\".p; «0:int»; «1:int»}()", allow: []string{"D9"}},
			c07tmpl{name: "reduce body", text: "[«0:int»]$(0){|acc, x| «1:int»}"},
			c07tmpl{name: "method args", text: "o.m(«0:int», «1:int»)"},
			c07tmpl{name: "iterator body", text: "<{|i| yield [«0:int», «1:int»]}>.new(0).next"})
		for _, out := range outers {
			for pos := 0; pos < 2; pos++ {
				for _, in := range append(append([]c07tmpl{}, simple...), c07chainTemplates()...) {
					if strings.Contains(in.text, ":=") || strings.Contains(in.text, "=>") || (out.name == "embedded" && c07noEmbed(in.text)) {
						continue
					}
					inner := in.text
					// renumber inner holes by +10
					for _, h := range c07holes(in.text) {
						inner = strings.Replace(inner, fmt.Sprintf("«%d:%s»", h.idx, h.typ), fmt.Sprintf("«%d:%s»", h.idx+10, h.typ), 1)
					}
					text := strings.Replace(out.text, fmt.Sprintf("«%d:int»", pos), "("+inner+")", 1)
					all = append(all, c07tmpl{name: "nested " + out.name + "[" + fmt.Sprint(pos) + "] ⊃ " + in.name, text: text, allow: append(append([]string{}, in.allow...), out.allow...)})
				}
			}
		}
	} else {
		// quick: a fixed diagonal of the nesting matrix
		for i, in := range simple {
			if strings.Contains(in.text, ":=") || strings.Contains(in.text, "=>") {
				continue
			}
			out := outers[i%len(outers)]
			if out.name == "embedded" && c07noEmbed(in.text) {
				out = outers[0]
			}
			inner := in.text
			for _, h := range c07holes(in.text) {
				inner = strings.Replace(inner, fmt.Sprintf("«%d:%s»", h.idx, h.typ), fmt.Sprintf("«%d:%s»", h.idx+10, h.typ), 1)
			}
			text := strings.Replace(out.text, "«1:int»", "("+inner+")", 1)
			all = append(all, c07tmpl{name: "nested " + out.name + "[1] ⊃ " + in.name, text: text, allow: in.allow})
		}
	}
	// entry point `pangaea test <dir>`: an uncaught raise in a file ends the run with that failure (status 1);
	// nothing after it is evaluated, whatever files follow
	if w.Take() {
		w.Begin("test-directory entry point", nil)
		var vs violSet
		n := 0
		for _, layout := range [][]string{{"ok", "raise", "ok"}, {"raise", "ok"}, {"ok", "ok", "raise"}, {"ok", "raise", "raise", "ok"}, {"raise"}, {"ok", "host", "ok"}} {
			dir, err := os.MkdirTemp(os.Getenv("VERIF_TMP"), "c07dir")
			if err != nil {
				panic("C07 harness: " + err.Error())
			}
			firstBad := -1
			for i, kind := range layout {
				src := fmt.Sprintf("\"F%d\".p\n", i)
				switch kind {
				case "raise":
					src += fmt.Sprintf("raise ValueErr.new(\"boom%d\")\n\"AFTER%d\".p\n", i, i)
				case "host":
					src += fmt.Sprintf("1 / 0\n\"AFTER%d\".p\n", i)
				}
				if kind != "ok" && firstBad < 0 {
					firstBad = i
				}
				os.WriteFile(filepath.Join(dir, fmt.Sprintf("t%d_test.pangaea", i)), []byte(src), 0o644)
			}
			var out bytes.Buffer
			code := runscript.RunTest(dir, strings.NewReader(""), &out)
			os.RemoveAll(dir)
			n++
			var printed []string
			for _, l := range strings.Split(out.String(), "\n") {
				if strings.HasPrefix(l, "F") || strings.HasPrefix(l, "AFTER") {
					printed = append(printed, l)
				}
			}
			var want []string
			for i := 0; i <= firstBad; i++ {
				want = append(want, fmt.Sprintf("F%d", i))
			}
			if code != 1 || strings.Join(printed, ",") != strings.Join(want, ",") {
				vs.add("C07|test-directory|run-continued-or-succeeded-after-a-raise", fmt.Sprintf("files %v: `pangaea test` printed %v and ended with status %d; the raise in file %d ends the run: %v, status 1", layout, printed, code, firstBad, want), layout)
			}
		}
		r := fw.Result{Verdict: fw.Held, Evals: n, Counters: map[string]int{"test_directory_runs": n, "fault_cases": n, "raise_marker_observed": n}, DKeys: []string{"test-directory"}}
		vs.finish(&r)
		w.End(r)
	}
	// entry points REPL (multi-line block) and import of a module file: a raise in the middle ends that block / that
	// import, every time
	if w.Take() {
		w.Begin("REPL block and module entry points", nil)
		var vs violSet
		n := 0
		// REPL: a multi-line block is one program
		for _, blk := range [][]string{
			{"a := 1", "b := 10 / 0", "\"AFTER-RAISE\".p", "state := \"after\""},
			{"\"F0\".p", "raise ValueErr.new(\"boom\")", "\"AFTER-RAISE\".p"},
			{"x := [1, nosuch, \"AFTER-RAISE\".p]", "\"AFTER-RAISE\".p"},
		} {
			session := "state := \"before\"\nmulti\n" + strings.Join(blk, "\n") + "\n\nsingle\nstate\n"
			var out bytes.Buffer
			runscript.StartREPL("", strings.NewReader(session), &out)
			n++
			tr := out.String()
			if strings.Contains(tr, "AFTER-RAISE") || strings.Contains(tr, `"after"`) || !strings.Contains(tr, `"before"`) {
				vs.add("C07|repl-block|evaluation-continued-after-raise", fmt.Sprintf("REPL multi-line block %q: statements after the raise were evaluated; transcript: %s", blk, truncateMid(tr, 500)), session)
			}
		}
		// a module whose top level raises part-way, imported / invited repeatedly
		dir, err := os.MkdirTemp(os.Getenv("VERIF_TMP"), "c07mod")
		if err != nil {
			panic("C07 harness: " + err.Error())
		}
		os.WriteFile(filepath.Join(dir, "plugin.pangaea"), []byte("\"loading\".p\nname := 'plugin\nlimit := 10 / 0\nready := true\n\"LOADED-AFTER-RAISE\".p\n"), 0o644)
		cwd, _ := os.Getwd()
		rel, rerr := filepath.Rel(cwd, dir)
		if rerr == nil {
			if !strings.HasPrefix(rel, ".") {
				rel = "./" + rel
			}
			for _, verb := range []string{"import", "invite!"} {
				src := fmt.Sprintf("r1 := nil.try.{|u| %s(\"%s/plugin\")}\nr2 := nil.try.{|u| %s(\"%s/plugin\")}\nr3 := nil.try.{|u| %s(\"%s/plugin\")}\n[r1.err.type == ZeroDivisionErr, r2.err.type == ZeroDivisionErr, r3.err.type == ZeroDivisionErr]", verb, rel, verb, rel, verb, rel)
				if ip == nil {
					ip = interp.New()
				}
				o := ip.Run(src, interp.Options{})
				n++
				if !o.OK() || o.Inspect != "[true, true, true]" || o.Stdout != "loading\nloading\nloading\n" {
					vs.add("C07|module|raise-in-module-not-delivered-every-time", fmt.Sprintf("%s of a module that raises part-way, three times in a row: got %s, stdout %q; every attempt raises ZeroDivisionErr after printing \"loading\"", verb, o.Outcome(), o.Stdout), src)
				}
			}
		}
		os.RemoveAll(dir)
		r := fw.Result{Verdict: fw.Held, Evals: n, Counters: map[string]int{"entry_point_runs": n, "fault_cases": n, "raise_marker_observed": n}, DKeys: []string{"repl-block", "module"}}
		vs.finish(&r)
		w.End(r)
	}
	handlers := []string{"none", "try", "thoughtful"}
	raisers := []struct{ fn, kind, msg string }{{"R", "ValueErr", "boom%d"}, {"RZ", "ZeroDivisionErr", "cannot be divided by 0"}, {"RS", "StopIterErr", "boom%d"}}
	for _, t := range all {
		if !w.Take() {
			continue
		}
		if ip == nil {
			ip = interp.New()
		}
		w.Begin("template "+t.name, map[string]any{"template": t.text})
		var vs violSet
		var dks []string
		n, seen := 0, 0
		var sample string
		holes := c07holes(t.text)
		for _, h := range holes {
			for _, rz := range raisers {
				if rz.fn == "RS" && (strings.Contains(t.text, "<{") || strings.Contains(t.text, "yield") || strings.Contains(t.name, "native callback") || strings.Contains(t.name, "Iterable#") || strings.Contains(t.text, "lazyMap") || strings.Contains(t.name, "range over user objects")) {
					// inside an iterator (or a library loop built on one) an error of the kind StopIterErr means "exhausted"
					continue
				}
				for _, hd := range handlers {
					expr := c07instantiate(t.text, h.idx, rz.fn, 0)
					var prog string
					switch hd {
					case "none":
						prog = c07prelude + "res := " + expr + "\n\"END\".p\nres"
						if strings.Contains(expr, ":=") || strings.Contains(expr, "=>") {
							prog = c07prelude + expr + "\n\"END\".p"
						}
					case "try":
						prog = c07prelude + "r := nil.try.{|u| " + expr + "}\n\"AFTER\".p\n[r.err.msg, r.err.type == " + rz.kind + ", r.val]"
					default:
						prog = c07prelude + "r := 7~.{|u| " + expr + "}\n\"AFTER\".p\nr"
					}
					w.Note(prog)
					env := object.NewEnclosedEnv(ip.Const)
					o := ip.Run(prog, interp.Options{Env: env})
					n++
					key := fmt.Sprintf("C07|%s", t.name)
					desc := fmt.Sprintf("template %s, raise (%s) injected at hole %d, handler %s:\n%s", t.name, rz.kind, h.idx, hd, strings.TrimPrefix(prog, c07prelude))
					if o.ParseErr != "" || o.Panic != "" || o.Cutoff != "" {
						vs.add(key+"|abnormal", desc+"\n→ "+o.Outcome()+" "+firstLine(o.ParseErr), prog)
						continue
					}
					lines := strings.Split(strings.TrimSuffix(o.Stdout, "\n"), "\n")
					rm := fmt.Sprintf("R%d", h.idx)
					at := -1
					for i, l := range lines {
						if l == rm {
							at = i
							break
						}
					}
					if at < 0 {
						// the fault position was never evaluated: trivial case, not counted
						continue
					}
					seen++
					// temporal oracle
					after := lines[at+1:]
					allowed := map[string]bool{}
					for _, a := range t.allow {
						allowed[a] = true
					}
					var bad []string
					for i, l := range after {
						if allowed[l] {
							continue
						}
						if hd != "none" && l == "AFTER" && i == len(after)-1 {
							continue
						}
						bad = append(bad, l)
					}
					msg := rz.msg
					if strings.Contains(msg, "%d") {
						msg = fmt.Sprintf(msg, h.idx)
					}
					switch {
					case len(bad) > 0:
						vs.add(key+"|evaluation-continued-after-raise", fmt.Sprintf("%s\nprinted %v after the raise marker %s (stdout %v)", desc, bad, rm, lines), prog)
					case hd == "none" && (o.Err == nil || o.ErrKind != rz.kind || o.ErrMsg != msg):
						vs.add(key+"|error-not-delivered", fmt.Sprintf("%s\nprogram ended with %s, want %s: %s", desc, o.Outcome(), rz.kind, msg), prog)
					case hd == "try" && (!o.OK() || o.Inspect != fmt.Sprintf(`["%s", true, nil]`, msg)):
						vs.add(key+"|error-not-delivered", fmt.Sprintf("%s\ntry observed %s, want [\"%s\", true, nil]", desc, o.Outcome(), msg), prog)
					case hd == "thoughtful" && (!o.OK() || o.Inspect != "7"):
						vs.add(key+"|error-not-delivered", fmt.Sprintf("%s\nthoughtful chain gave %s, want the receiver 7", desc, o.Outcome()), prog)
					case hd != "none" && (len(after) == 0 || after[len(after)-1] != "AFTER"):
						vs.add(key+"|handler-did-not-continue", fmt.Sprintf("%s\nstdout %v", desc, lines), prog)
					default:
						// residue scan: no error object stored inside any reachable value
						snap := walk.New()
						snap.StopEnv, snap.NoProtos = ip.Const, true
						snap.WalkEnv(env, ip.Const)
						if o.OK() {
							snap.Walk(o.Val)
						}
						if len(snap.Errs) > 0 {
							vs.add(key+"|error-stored-in-a-value", fmt.Sprintf("%s\nan error object is stored inside a reachable value: %v", desc, snap.Errs), prog)
						} else if sample == "" && hd == "none" && len(holes) > 2 {
							sample = fmt.Sprintf("%s: raise at hole %d → stdout %v, ends with %s ✓", expr, h.idx, lines, o.Outcome())
						}
						dks = append(dks, fmt.Sprintf("%s|%d|%s|%s", t.name, h.idx, rz.kind, hd))
					}
				}
			}
		}
		// no-fault run: the template itself must evaluate (otherwise its fault cases prove nothing)
		base := ip.Run(c07prelude+"res := "+strings.Replace(c07instantiate(t.text, -1, "R", 0), "x := ", "", 0)+"\nres", interp.Options{})
		if base.ParseErr != "" {
			vs.add("C07|"+t.name+"|template-does-not-parse", t.text+": "+firstLine(base.ParseErr), t.text)
		}
		r := fw.Result{Verdict: fw.Held, Evals: n, DKeys: dks, Counters: map[string]int{"fault_cases": n, "raise_marker_observed": seen, "templates": 1}}
		if sample != "" {
			r.Sample = sample
		}
		vs.finish(&r)
		w.End(r)
	}
}
