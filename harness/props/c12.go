package props

import (
	"fmt"
	"strings"

	"github.com/Syuparn/pangaea/object"

	"verif/fw"
	"verif/interp"
)

// C12 — one truthiness rule governs if/else, guards, !, && and ||, with short-circuiting.
// truth(v) := (`v.B` evaluated on the same interpreter is the `true` singleton).

type c12construct struct {
	name string
	src  string // uses v (the condition), w (a distinct operand), mark (prints M and returns its argument)
	// expectation given truth: stdout lines, and result identity: "v", "w", "x", "" (not judged), or a literal Inspect
	expect func(truth bool) (stdout string, result string)
}

var c12constructs = []c12construct{
	{"if-else", `"T".p if v else "E".p`, func(t bool) (string, string) { return pickS(t, "T\n", "E\n"), "" }},
	{"if-else value", `(w if v else x)`, func(t bool) (string, string) { return "", pickS(t, "w", "x") }},
	{"if", `"T".p if v`, func(t bool) (string, string) { return pickS(t, "T\n", ""), "" }},
	{"if value", `(w if v)`, func(t bool) (string, string) { return "", pickS(t, "w", "=nil") }},
	{"nested if in else", `"A".p if v else ("B".p if v else "C".p)`, func(t bool) (string, string) { return pickS(t, "A\n", "C\n"), "" }},
	{"guarded return", `{|c| return w if c; "after".p; x}(v)`, func(t bool) (string, string) { return pickS(t, "", "after\n"), pickS(t, "w", "x") }},
	{"guarded raise", `{|c| raise ValueErr.new("guard") if c; x}(v)`, func(t bool) (string, string) { return "", pickS(t, "!ValueErr: guard", "x") }},
	{"guarded yield", `<{|c| yield w if c}>.new(v).next`, func(t bool) (string, string) { return "", pickS(t, "w", "!StopIterErr") }},
	{"guarded defer", `{|c| defer "D".p if c; "B".p; x}(v)`, func(t bool) (string, string) { return pickS(t, "B\nD\n", "B\n"), "x" }},
	{"guarded return operand only if true", `{|c| return mark(w) if c; x}(v)`, func(t bool) (string, string) { return pickS(t, "M\n", ""), pickS(t, "w", "x") }},
	{"guarded raise operand only if true", `{|c| raise {|| "M".p; ValueErr.new("guard2")}() if c; x}(v)`, func(t bool) (string, string) { return pickS(t, "M\n", ""), pickS(t, "!ValueErr: guard2", "x") }},
	{"guarded yield operand only if true", `<{|c| yield mark(w) if c}>.new(v).try.next.val`, func(t bool) (string, string) { return pickS(t, "M\n", ""), pickS(t, "w", "=nil") }},
	{"guarded defer operand only if true", `{|c| defer mark(w) if c; "B".p; x}(v)`, func(t bool) (string, string) { return pickS(t, "B\nM\n", "B\n"), "x" }},
	{"if-else operands only in the taken branch", `(mark(w) if v else mark(x))`, func(t bool) (string, string) { return "M\n", pickS(t, "w", "x") }},
	{"not", `!v`, func(t bool) (string, string) { return "", pickS(t, "=false", "=true") }},
	{"not not", `!!v`, func(t bool) (string, string) { return "", pickS(t, "=true", "=false") }},
	{"and", `v && mark(w)`, func(t bool) (string, string) { return pickS(t, "M\n", ""), pickS(t, "w", "v") }},
	{"or", `v || mark(w)`, func(t bool) (string, string) { return pickS(t, "", "M\n"), pickS(t, "v", "w") }},
	{"and then or", `(v && mark(w)) || mark(x)`, nil},
	{"or then and", `(v || mark(w)) && mark(x)`, nil},
	{"compound and", `a := v; a &&= mark(w); a`, func(t bool) (string, string) { return pickS(t, "M\n", ""), pickS(t, "w", "v") }},
	{"compound or", `a := v; a ||= mark(w); a`, func(t bool) (string, string) { return pickS(t, "", "M\n"), pickS(t, "v", "w") }},
	{"if with && condition", `"T".p if v && mark(true) else "E".p`, func(t bool) (string, string) { return pickS(t, "M\nT\n", "E\n"), "" }},
	{"if with || condition", `"T".p if v || mark(false) else "E".p`, func(t bool) (string, string) { return pickS(t, "T\n", "M\nE\n"), "" }},
}

func pickS(t bool, a, b string) string {
	if t {
		return a
	}
	return b
}

func init() {
	fw.Register(&fw.Prop{
		ID:    "C12",
		Level: "exploration",
		Rule: "every value of the pool (every built-in type, zero and non-zero, typed descendants, prototypes, objects with a user-defined B returning true/false/1/nil/a string) as the condition of 19 conditional constructs with marker-printing operands (if/else, if, nested if, guarded return/raise/yield/defer, !, !!, &&, ||, nested and compound forms, conditions built from && / ||); thorough adds every (v, w-truthiness) pair for the nested forms. " +
			"Oracle: truth(v) := `v.B` is the true singleton; each construct must print exactly the markers and return exactly the operand (Go pointer identity) its documented function of truth(v) prescribes; built-in data values must follow the zero-value table. distinct = distinct (construct, pool value) pairs judged; non-trivial = `v.B` evaluated to a value so truth(v) is defined" +
			" Added: 31 prop-less descendants (`1.bear`, children of objects with a user B, of prototypes) and values whose B raises (falsy for every construct alike). Sixth round: values without any B property (BaseObj-rooted, with and without `_missing`), instances made by `new` of prototypes overriding B.",
		Assumptions: []string{
			"truth(v) is taken from the interpreter's own `v.B` (true singleton ⇒ true; anything else ⇒ false), as the statement defines it",
			"the zero-value table is asserted for plain ints, floats, strs, arrays, objects without user B, maps, nil and booleans only (ranges, funcs, iterators, Either values, prototypes and descendants only take part in the construct-agreement oracle)",
		},
		Exhaustive: func(string) bool { return true },
		Floor: func(m *fw.Merged) string {
			if m.Counters["judged"] < 2000 {
				return fmt.Sprintf("judged=%d", m.Counters["judged"])
			}
			return ""
		},
		Run: runC12,
	})
}

// c12askOnce: constructs in which the condition is written once: its B is asked exactly once (a B with an effect
// shows how often it ran; a B whose answers alternate shows which answer was used: the first)
var c12askOnce = []struct{ name, src string }{
	{"if-else", `("T" if v else "E")`}, {"if", `("T" if v)`}, {"guarded return", `{|c| return "T" if c; "E"}(v)`}, {"guarded raise", `{|c| raise ValueErr.new("T") if c; "E"}.try.call(v).A[1].nil?.!`},
	{"guarded yield", `<{|c| yield "T" if c}>.new(v).try.next.val`}, {"guarded defer", `{|c| defer "D".p if c; "E"}(v)`}, {"not", `!v`}, {"and", `v && "T"`}, {"or", `v || "E"`},
	{"compound and", `a := v; a &&= "T"; a`}, {"compound or", `a := v; a ||= "E"; a`},
}

func runC12(w *fw.W) {
	var ip *interp.Interp
	var pool *Pool
	setup := func() {
		if ip == nil {
			ip = interp.New()
			pool, _ = BuildPool(ip, true)
			ip.Run(`mark := {|m| "M".p; m}`, interp.Options{Env: pool.Env})
		}
	}
	setup()
	// prop-less descendants: the truth of `x.bear` is whatever the B it inherits says about it (children of
	// ints, strs, arrays, of objects with a user B, of prototypes), never a function of its own (empty) props
	for _, src := range []string{"1.bear", "0.bear", "'a.bear", `"".bear`, "[1].bear", "[].bear", "1.5.bear", "0.0.bear", "objB1.bear", "objB1.bear.bear", "objB0.bear",
		"objBint.bear", "objBnil.bear.bear", "{}.bear", "{a: 1}.bear.bear", "1.bear({})", "0.bear({})", "true.bear", "false.bear", "nil.bear", "Int.bear", "Obj.bear", "PIntT.new(0).bear",
		"PIntF.new(7).bear", "`true`.decJSON", "`false`.decJSON", "`[true, false]`.decJSON[0]", "`[true, false]`.decJSON[1]", "`{\"t\": true}`.decJSON.t", "JSON.dec(`false`)",
		"1 == 1", "1 == 2", "!nil", "!1", "[].empty?", "[1].empty?", "true && true", "nil.nil?", "`1`.decJSON", "`0`.decJSON", "`null`.decJSON", "`\"\"`.decJSON",
		"{name: 1, B: m{raise ValueErr.new(\"cannot boolify\")}}", "{B: m{raise ValueErr.new(\"cannot boolify\")}}.bear", "{B: m{1 / 0}}.bear({x: 1})", "%{1: 2}.bear", "%{}.bear", "(1:3).bear", "{|x| x}.bear", "1.bear.bear({})", "objB1.bear({})", "objB0.bear({z: 1})"} {
		name := fmt.Sprintf("x%d", len(pool.Vals))
		o := ip.Run(name+" := "+src, interp.Options{Env: pool.Env, Fuel: -1})
		if !o.OK() {
			continue
		}
		pool.Vals = append(pool.Vals, &PoolVal{Name: name, Src: src, Family: "obj", Tags: map[string]bool{"desc": true, "propless": true}, Val: o.Val})
	}
	// instances made by `new` of prototypes that override B: the runtime kind (nil, int, str, arr, …) is the built-in one,
	// the B that decides is the prototype's
	for _, src := range []string{"Nil.bear({B: m{true}}).new", "Nil.bear({B: m{false}}).new", "Int.bear({B: m{true}}).new(0)", "Int.bear({B: m{false}}).new(7)",
		"Str.bear({B: m{true}}).new(\"\")", "Str.bear({B: m{false}}).new(\"x\")", "Arr.bear({B: m{true}}).new([])", "Arr.bear({B: m{false}}).new([1])", "Float.bear({B: m{true}}).new(0.0)",
		"Float.bear({B: m{false}}).new(1.5)", "Map.bear({B: m{true}}).new(%{})", "Map.bear({B: m{false}}).new(%{1: 2})", "Obj.bear({B: m{false}}).new({a: 1})", "Range.bear({B: m{false}}).new(1, 2)",
		"Nil.bear({B: m{true}}).new.bear", "Nil.bear({B: m{1}}).new", "Int.bear({B: m{nil}}).new(3)"} {
		name := fmt.Sprintf("x%d", len(pool.Vals))
		o := ip.Run(name+" := "+src, interp.Options{Env: pool.Env, Fuel: -1})
		if !o.OK() {
			continue
		}
		pool.Vals = append(pool.Vals, &PoolVal{Name: name, Src: src, Family: "obj", Tags: map[string]bool{"desc": true, "userB": true, "made-by-new": true}, Val: o.Val})
	}
	// values that have no B property at all (forests rooted at BaseObj), with and without a `_missing` that would
	// answer true to any name: not having the property, they are not true — for every construct alike (the
	// constructs written with `!` are left out: `!` itself is a property these values do not have)
	for _, src := range []string{"BaseObj.bear({_missing: m{|name| true}})", "BaseObj.bear({_missing: m{|name| true}}).bear", "BaseObj.bear({_missing: m{|name| true}}).bear({x: 1})",
		"BaseObj.bear({a: 1})", "BaseObj.bear({a: 1}).bear", "BaseObj.bear({_missing: m{|name| false}})", "BaseObj.bear({_missing: m{|name| raise ValueErr.new(name)}})"} {
		name := fmt.Sprintf("x%d", len(pool.Vals))
		o := ip.Run(name+" := "+src, interp.Options{Env: pool.Env, Fuel: -1})
		if !o.OK() {
			continue
		}
		pool.Vals = append(pool.Vals, &PoolVal{Name: name, Src: src, Family: "obj", Tags: map[string]bool{"desc": true, "noB": true}, Val: o.Val})
	}
	wv := map[bool]object.PanObject{} // distinct operands with known truthiness
	xo := ip.Run(`{tag: "x-operand"}`, interp.Options{})
	wo := ip.Run(`{tag: "w-operand"}`, interp.Options{})
	wf := ip.Run(`{tag: "w-falsy", B: m{false}}`, interp.Options{})
	wv[true], wv[false] = wo.Val, wf.Val
	tmpls := map[string]*interp.Template{}
	for _, c := range c12constructs {
		tmpls[c.name] = interp.MustTemplate(c.src)
	}
	tB := interp.MustTemplate("v.B")
	if w.Take() {
		w.Begin("B asked once per written condition", nil)
		var vs violSet
		n := 0
		for _, c := range c12askOnce {
			for _, first := range []string{"true", "false"} {
				// B prints a mark and alternates its answer starting with `first`
				src := fmt.Sprintf("ans := [%s, %s, %s, %s, %s, %s]._iter\nv := {tag: 1, B: m{\"Q\".p; ans.next}}\nr := %s\n'done", first, map[string]string{"true": "false", "false": "true"}[first], first, map[string]string{"true": "false", "false": "true"}[first], first, first, c.src)
				ref := strings.Replace(src, "B: m{\"Q\".p; ans.next}", "B: m{\"Q\".p; "+first+"}", 1)
				o := ip.Run(src, interp.Options{Env: pool.Scope()})
				ro := ip.Run(ref+"\n", interp.Options{Env: pool.Scope()})
				n++
				if !ro.OK() {
					panic("C12 harness: reference program does not evaluate: " + ref + " → " + ro.Outcome())
				}
				// the construct behaves as with a constant B answering `first`, and B ran exactly as often
				if !o.OK() || o.Stdout != ro.Stdout {
					vs.add("C12|B-asked-once|"+c.name, fmt.Sprintf("condition written once, B answering %s first then alternating: `%s` printed %q; with a B that always answers %s it prints %q", first, c.src, o.Stdout, first, ro.Stdout), src)
				}
				if strings.Count(ro.Stdout, "Q\n") != 1 {
					vs.add("C12|B-asked-once|"+c.name+"|count", fmt.Sprintf("`%s`: B ran %d times for one written condition", c.src, strings.Count(ro.Stdout, "Q\n")), ref)
				}
			}
		}
		r := fw.Result{Verdict: fw.Held, Evals: n, Counters: map[string]int{"judged": n, "ask_once_programs": n}, DKeys: []string{"B-asked-once"}}
		vs.finish(&r)
		w.End(r)
	}
	for _, v := range pool.Vals {
		if !w.Take() {
			continue
		}
		w.Begin("condition "+v.Src, map[string]any{"v": v.Src})
		var vs violSet
		var dks []string
		judged := 0
		evalIn := func(t *interp.Template, bind map[string]object.PanObject) *interp.Obs {
			env := pool.Scope()
			for k, b := range bind {
				env.Set(object.GetSymHash(k), b)
			}
			return ip.EvalNode(t.Prog, interp.Options{Env: env, Fuel: 100000}, nil)
		}
		bo := evalIn(tB, map[string]object.PanObject{"v": v.Val})
		if !v.Has("noB") && !bo.OK() && (bo.Err == nil || bo.ErrKind == "NoPropErr") {
			// (a value without any B — BaseObj — has no truth to agree on)
			w.End(fw.Result{Verdict: fw.Inconclusive, Reason: "B-not-a-value"})
			continue
		}
		// a B that raises does not yield the true singleton: such a value is falsy for every construct alike
		truth := bo.OK() && bo.Val == object.BuiltInTrue
		if v.Has("noB") {
			truth = false
		}
		kcls := v.Family
		if v.Has("noB") {
			kcls += "+no-B-prop"
		}
		if v.Has("made-by-new") {
			kcls += "+made-by-new"
		}
		if v.Has("desc") {
			kcls += "+desc"
		}
		if v.Has("userB") {
			kcls += "+userB(" + bo.Inspect + ")"
		}
		if bo.Err != nil {
			kcls += "+B-raises"
		}
		// zero-value table
		tableFam := map[string]bool{"int": true, "float": true, "str": true, "arr": true, "obj": true, "map": true, "nil": true, "bool": true}
		if tableFam[v.Family] && !v.Has("desc") && !v.Has("user") && !v.Has("proto") {
			wantTruth := !v.Has("zero")
			judged++
			if truth != wantTruth {
				vs.add("C12|zero-value-table|"+kcls, fmt.Sprintf("%s.B → %s but the table makes it %v", v.Src, bo.Inspect, wantTruth), v.Src)
			}
		}
		wtruths := []bool{true}
		if w.Thorough() {
			wtruths = []bool{true, false}
		}
		for _, c := range c12constructs {
			if v.Has("noB") && strings.Contains(c.src, "!") {
				continue
			}
			for _, wt := range wtruths {
				bind := map[string]object.PanObject{"v": v.Val, "w": wv[wt], "x": xo.Val}
				o := evalIn(tmpls[c.name], bind)
				var wantOut, wantRes string
				switch c.name {
				case "and then or":
					// (v && mark(w)) || mark(x)
					switch {
					case truth && wt:
						wantOut, wantRes = "M\n", "w"
					case truth && !wt:
						wantOut, wantRes = "M\nM\n", "x"
					default:
						wantOut, wantRes = "M\n", "x"
					}
				case "or then and":
					// (v || mark(w)) && mark(x)
					switch {
					case truth:
						wantOut, wantRes = "M\n", "x"
					case wt:
						wantOut, wantRes = "M\nM\n", "x"
					default:
						wantOut, wantRes = "M\n", "w"
					}
				default:
					wantOut, wantRes = c.expect(truth)
				}
				judged++
				desc := fmt.Sprintf("v = %s (v.B → %s), w %s: `%s`", v.Src, bo.Inspect, pickS(wt, "truthy", "falsy"), c.src)
				if o.Panic != "" || o.Cutoff != "" {
					vs.add("C12|"+c.name+"|abnormal|"+kcls, desc+" → "+o.Outcome(), desc)
					continue
				}
				if o.Stdout != wantOut {
					vs.add("C12|"+c.name+"|wrong-branches-or-operand-evaluation|"+kcls, fmt.Sprintf("%s printed %q, want %q (result %s)", desc, o.Stdout, wantOut, o.Outcome()), desc)
					continue
				}
				if bad := c12resultMismatch(o, wantRes, bind); bad != "" {
					vs.add("C12|"+c.name+"|wrong-result|"+kcls, desc+": "+bad, desc)
				}
				dks = append(dks, c.name+"|"+v.Name+"|"+fmt.Sprint(wt))
			}
		}
		r := fw.Result{Verdict: fw.Held, Evals: judged, DKeys: dks, Counters: map[string]int{"judged": judged, "conditions": 1},
			Sample: fmt.Sprintf("%s: v.B → %s; %d constructs agree", v.Src, bo.Inspect, len(c12constructs))}
		vs.finish(&r)
		w.End(r)
	}
	_ = strings.Join
}

func c12resultMismatch(o *interp.Obs, want string, bind map[string]object.PanObject) string {
	switch {
	case want == "":
		return ""
	case strings.HasPrefix(want, "!"):
		if o.Err == nil || !strings.HasPrefix(o.Inspect, want[1:]) {
			return fmt.Sprintf("result %s, want error %s", o.Outcome(), want[1:])
		}
		return ""
	case strings.HasPrefix(want, "="):
		if !o.OK() || o.Inspect != want[1:] {
			return fmt.Sprintf("result %s, want %s", o.Outcome(), want[1:])
		}
		return ""
	}
	if !o.OK() || o.Val != bind[want] {
		return fmt.Sprintf("result %s is not the operand %s itself", o.Outcome(), want)
	}
	return ""
}
