package props

import (
	"bytes"
	"fmt"
	"github.com/Syuparn/pangaea/runscript"
	"math/rand"
	"strings"

	"verif/fw"
	"verif/interp"
)

// C02 — expressions group by the documented precedence and associativity.
// The table of docs/reference/operators.md is transcribed below; an independent
// precedence model renders (a) the minimally parenthesised text, (b) the fully
// parenthesised text and (c) the expected Program.String(); the real parser must
// give (c) for both (a) and (b).

// precedence levels, lowest to highest (docs/reference/operators.md, bottom to top)
const (
	lvIf = iota
	lvElse
	lvJump
	lvJumpIf
	lvRAssign
	lvAssign
	lvOr
	lvAnd
	lvCmp
	lvBitOr
	lvBitAnd
	lvShift
	lvAdd
	lvMul
	lvPow
	lvMLChain
	lvChain
	lvPrefix
	lvCall
	lvGroup
	lvIndex
	lvAtom
)

var c02infix = []struct {
	op string
	lv int
}{
	{"||", lvOr}, {"&&", lvAnd},
	{"<=>", lvCmp}, {"==", lvCmp}, {"!=", lvCmp}, {"<=", lvCmp}, {">=", lvCmp}, {"<", lvCmp}, {">", lvCmp}, {"===", lvCmp}, {"!==", lvCmp},
	{"/|", lvBitOr}, {"/^", lvBitOr}, {"/&", lvBitAnd}, {"<<", lvShift}, {">>", lvShift},
	{"+", lvAdd}, {"-", lvAdd}, {"*", lvMul}, {"/", lvMul}, {"//", lvMul}, {"%", lvMul}, {"**", lvPow},
}

var c02prefix = []string{"!", "-", "+", "/~"}
var c02chains = []string{".", "@", "$", "&.", "&@", "&$", "~.", "~@", "~$", "=.", "=@", "=$"}
var c02compound = []string{"+", "-", "*", "/", "//", "%", "**", "<<", ">>", "/&", "/|", "/^", "&&", "||"}

func infixLevel(op string) int {
	for _, i := range c02infix {
		if i.op == op {
			return i.lv
		}
	}
	panic("unknown infix " + op)
}

type pkind int

const (
	kAtom pkind = iota
	kInfix
	kPrefix
	kChain
	kCall
	kIndex
	kIf
	kAssign
	kCAssign
	kRAssign
	kGroup
)

var pkindName = map[pkind]string{kAtom: "atom", kInfix: "infix", kPrefix: "prefix", kChain: "chain", kCall: "call", kIndex: "index",
	kIf: "if", kAssign: "assign", kCAssign: "compound-assign", kRAssign: "right-assign", kGroup: "group"}

type pexpr struct {
	k      pkind
	text   string   // atom text / operator / chain token / assigned name
	prop   string   // chain prop
	kids   []*pexpr // operands (infix l,r; prefix x; chain recv; call f; index x,i; if then,cond[,else]; assign rhs; rassign lhs; group x)
	args   []*pexpr // chain/call arguments (nil: no parentheses for chain)
	carg   *pexpr   // chain argument `$(x)`
	hasArg bool
	multi  bool // chain written on the next line with a leading `|`
}

// level of the construct at the root of e.
func (e *pexpr) level() int {
	switch e.k {
	case kAtom, kGroup:
		return lvAtom
	case kInfix:
		return infixLevel(e.text)
	case kPrefix:
		return lvPrefix
	case kChain:
		return lvChain
	case kCall:
		return lvCall
	case kIndex:
		return lvIndex
	case kIf:
		if len(e.kids) == 3 {
			return lvElse
		}
		return lvIf
	case kAssign, kCAssign:
		return lvAssign
	case kRAssign:
		return lvRAssign
	}
	return lvAtom
}

// spineMin is the lowest level among the postfix operators on the target spine of e
// (a prefix operator in front of `a[1].b[2]` captures only `a[1]`).
func (e *pexpr) spineMin() int {
	lv := e.level()
	switch e.k {
	case kChain, kCall, kIndex:
		t := e.kids[0]
		if t.k == kChain || t.k == kCall || t.k == kIndex {
			if m := t.spineMin(); m < lv {
				lv = m
			}
		}
	}
	return lv
}

// render is the expected Program.String() text.
func (e *pexpr) render() string {
	switch e.k {
	case kAtom:
		return e.text
	case kGroup:
		return e.kids[0].render()
	case kInfix:
		return "(" + e.kids[0].render() + " " + e.text + " " + e.kids[1].render() + ")"
	case kPrefix:
		x := e.kids[0].render()
		if e.text == "-" && isNumLit(x) {
			// the parser folds a minus sign into a numeric literal (`-65`, `- -5` → `--5`)
			return "-" + x
		}
		return "(" + e.text + x + ")"
	case kChain:
		s := e.kids[0].render() + e.text
		if e.carg != nil {
			s += "(" + e.carg.render() + ")"
		}
		return s + e.prop + "(" + renderList(e.args) + ")"
	case kCall:
		return e.kids[0].render() + ".call(" + renderList(e.args) + ")"
	case kIndex:
		return e.kids[0].render() + ".at([" + e.kids[1].render() + "])"
	case kIf:
		s := "(" + e.kids[0].render() + " if " + e.kids[1].render()
		if len(e.kids) == 3 {
			s += " else " + e.kids[2].render()
		}
		return s + ")"
	case kAssign:
		return "(" + e.text + " := " + e.kids[0].render() + ")"
	case kCAssign:
		return "(" + e.text + " := (" + e.text + " " + e.prop + " " + e.kids[0].render() + "))"
	case kRAssign:
		return "(" + e.text + " := " + e.kids[0].render() + ")"
	}
	return "?"
}

func isNumLit(s string) bool {
	t := strings.TrimLeft(s, "-")
	if t == "" {
		return false
	}
	for _, c := range t {
		if c < '0' || c > '9' {
			return false
		}
	}
	return true
}

func renderList(l []*pexpr) string {
	var p []string
	for _, a := range l {
		p = append(p, a.render())
	}
	return strings.Join(p, ", ")
}

// print produces source text; full=true adds every implied pair of parentheses.
// need is the minimal level the position accepts without parentheses.
func (e *pexpr) print(full bool, need int) string {
	s := e.printBare(full)
	lv := e.level()
	if e.k == kChain || e.k == kCall || e.k == kIndex {
		lv = e.spineMin()
	}
	if e.k == kAtom {
		return s
	}
	if e.k == kGroup {
		return s // already parenthesised
	}
	if full || lv < need {
		return "(" + s + ")"
	}
	return s
}

func (e *pexpr) printBare(full bool) string {
	top := lvIf // a position that accepts any expression (argument, index, group)
	switch e.k {
	case kAtom:
		return e.text
	case kGroup:
		return "(" + e.kids[0].print(false, top) + ")"
	case kInfix:
		lv := infixLevel(e.text)
		return e.kids[0].print(full, lv) + " " + e.text + " " + e.kids[1].print(full, lv+1)
	case kPrefix:
		op := e.text
		x := e.kids[0].print(full, lvPrefix)
		if e.kids[0].k == kPrefix && !strings.HasPrefix(x, "(") {
			return op + " " + x
		}
		return op + x
	case kChain:
		s := e.kids[0].printTarget(full, lvChain)
		if e.multi {
			s += "\n  |"
		}
		s += e.text
		if e.carg != nil {
			s += "(" + e.carg.print(false, top) + ")"
		}
		s += e.prop
		if e.hasArg {
			s += "(" + printList(e.args) + ")"
		}
		return s
	case kCall:
		return e.kids[0].printTarget(full, lvCall) + "(" + printList(e.args) + ")"
	case kIndex:
		return e.kids[0].printTarget(full, lvIndex) + "[" + e.kids[1].print(false, top) + "]"
	case kIf:
		s := e.kids[0].print(full, lvIf) + " if "
		if len(e.kids) == 3 {
			// then-part may be an if/else itself (left-assoc); cond and else must bind tighter than `else`
			return s + e.kids[1].print(full, lvElse+1) + " else " + e.kids[2].print(full, lvElse+1)
		}
		return s + e.kids[1].print(full, lvElse+1)
	case kAssign:
		return e.text + " := " + e.kids[0].print(full, lvAssign)
	case kCAssign:
		return e.text + " " + e.prop + "= " + e.kids[0].print(full, lvAssign)
	case kRAssign:
		return e.kids[0].print(full, lvRAssign) + " => " + e.text
	}
	return "?"
}

// printTarget prints the target of a postfix operator of level lv: another postfix
// operator never needs parentheses (application is left to right); a prefix operator
// needs them only when the postfix operator binds tighter than prefix operators.
func (e *pexpr) printTarget(full bool, lv int) string {
	switch e.k {
	case kAtom, kGroup:
		return e.print(full, lvAtom)
	case kChain, kCall, kIndex:
		s := e.printBare(full)
		if full || (lv == lvCall && e.k == kChain && !e.hasArg) {
			// `c.p(b)` would make b an argument of p: a call of the chain's result needs parentheses
			return "(" + s + ")"
		}
		return s
	case kPrefix:
		if lv < lvPrefix && !full {
			// `-x.b` is `(-x).b`; the operand must not itself end in a looser postfix spine
			return e.printBare(false)
		}
		return "(" + e.printBare(full) + ")"
	}
	return "(" + e.printBare(full) + ")"
}

func printList(l []*pexpr) string {
	var p []string
	for _, a := range l {
		p = append(p, a.print(false, lvIf))
	}
	return strings.Join(p, ", ")
}

func atom(s string) *pexpr { return &pexpr{k: kAtom, text: s} }

// kinds used in keys
func (e *pexpr) kindKey() string {
	switch e.k {
	case kInfix:
		return fmt.Sprintf("infix(L%d)", infixLevel(e.text))
	case kChain:
		return "chain"
	case kIf:
		if len(e.kids) == 3 {
			return "if-else"
		}
		return "if"
	}
	return pkindName[e.k]
}

// constructors over given children (for the depth-2 enumeration); each returns the
// construct with fresh atoms in the other positions.
type c02ctor struct {
	name  string
	arity int // number of expression positions that may hold a sub-construct
	mk    func(kids []*pexpr) *pexpr
	// allowed reports whether child kind may appear at position i at all (grammar restriction)
}

func c02ctors() []c02ctor {
	var cs []c02ctor
	for _, in := range c02infix {
		op := in.op
		cs = append(cs, c02ctor{"infix " + op, 2, func(k []*pexpr) *pexpr { return &pexpr{k: kInfix, text: op, kids: k} }})
	}
	for _, p := range c02prefix {
		p := p
		cs = append(cs, c02ctor{"prefix " + p, 1, func(k []*pexpr) *pexpr { return &pexpr{k: kPrefix, text: p, kids: k} }})
	}
	for _, c := range c02chains {
		c := c
		cs = append(cs, c02ctor{"chain " + c, 1, func(k []*pexpr) *pexpr { return &pexpr{k: kChain, text: c, prop: "p", kids: k} }})
		cs = append(cs, c02ctor{"chain-args " + c, 2, func(k []*pexpr) *pexpr {
			return &pexpr{k: kChain, text: c, prop: "q", kids: k[:1], args: []*pexpr{k[1]}, hasArg: true}
		}})
	}
	// the same chains continued on the next line with `|`: the spelling does not change what the chain binds to
	for _, c := range []string{".", "@", "$", "&.", "~@", "=$"} {
		c := c
		cs = append(cs, c02ctor{"chain-multiline " + c, 1, func(k []*pexpr) *pexpr { return &pexpr{k: kChain, text: c, prop: "p", kids: k, multi: true} }})
		cs = append(cs, c02ctor{"chain-args-multiline " + c, 2, func(k []*pexpr) *pexpr {
			return &pexpr{k: kChain, text: c, prop: "q", kids: k[:1], args: []*pexpr{k[1]}, hasArg: true, multi: true}
		}})
	}
	for _, c := range []string{"$", "~$", "=@", "&@", "&.", "@"} {
		c := c
		cs = append(cs, c02ctor{"chain-arg-multiline " + c + "(x)", 2, func(k []*pexpr) *pexpr {
			return &pexpr{k: kChain, text: c, prop: "r", kids: k[:1], carg: k[1], multi: true}
		}})
		cs = append(cs, c02ctor{"chain-arg " + c + "(x) with call args", 2, func(k []*pexpr) *pexpr {
			return &pexpr{k: kChain, text: c, prop: "r", kids: k[:1], carg: k[1], args: []*pexpr{{k: kAtom, text: "z"}}, hasArg: true}
		}})
	}
	cs = append(cs, c02ctor{"chain-arg $(x)", 2, func(k []*pexpr) *pexpr {
		return &pexpr{k: kChain, text: "$", prop: "r", kids: k[:1], carg: k[1]}
	}})
	cs = append(cs, c02ctor{"call", 2, func(k []*pexpr) *pexpr { return &pexpr{k: kCall, kids: k[:1], args: []*pexpr{k[1]}} }})
	cs = append(cs, c02ctor{"index", 2, func(k []*pexpr) *pexpr { return &pexpr{k: kIndex, kids: k} }})
	cs = append(cs, c02ctor{"if", 2, func(k []*pexpr) *pexpr { return &pexpr{k: kIf, kids: k} }})
	cs = append(cs, c02ctor{"if-else", 3, func(k []*pexpr) *pexpr { return &pexpr{k: kIf, kids: k} }})
	cs = append(cs, c02ctor{"assign", 1, func(k []*pexpr) *pexpr { return &pexpr{k: kAssign, text: "v", kids: k} }})
	for _, op := range c02compound {
		op := op
		cs = append(cs, c02ctor{"compound " + op + "=", 1, func(k []*pexpr) *pexpr { return &pexpr{k: kCAssign, text: "w", prop: op, kids: k} }})
	}
	cs = append(cs, c02ctor{"right-assign", 1, func(k []*pexpr) *pexpr { return &pexpr{k: kRAssign, text: "z", kids: k} }})
	cs = append(cs, c02ctor{"group", 1, func(k []*pexpr) *pexpr { return &pexpr{k: kGroup, kids: k} }})
	return cs
}

func freshAtoms(n int, names *int) []*pexpr {
	var out []*pexpr
	for i := 0; i < n; i++ {
		out = append(out, atom(string(rune('a'+(*names)%20))))
		*names++
	}
	return out
}

// random tree of bounded depth over all constructs and operand shapes
func c02random(rng *rand.Rand, depth int, ctors []c02ctor) *pexpr {
	if depth == 0 || rng.Intn(5) == 0 {
		switch rng.Intn(6) {
		case 0:
			return atom(fmt.Sprint(rng.Intn(100)))
		case 1:
			return &pexpr{k: kCall, kids: []*pexpr{atom("f")}, args: []*pexpr{atom("x")}}
		case 2:
			return &pexpr{k: kIndex, kids: []*pexpr{atom("t"), atom("i")}}
		default:
			return atom(string(rune('a' + rng.Intn(20))))
		}
	}
	c := ctors[rng.Intn(len(ctors))]
	kids := make([]*pexpr, c.arity)
	for i := range kids {
		kids[i] = c02random(rng, depth-1, ctors)
	}
	return c.mk(kids)
}

type c02stmt struct {
	jump string // "" or return/raise/yield/defer
	val  *pexpr
	cond *pexpr
}

func (s *c02stmt) texts() (min, full, want string) {
	if s.jump == "" {
		return s.val.print(false, lvIf), s.val.print(true, lvIf), s.val.render()
	}
	// jump value must bind tighter than the jump itself (right-assign and above)
	min = s.jump + " " + s.val.print(false, lvRAssign)
	full = s.jump + " " + s.val.print(true, lvRAssign)
	want = s.jump + " " + s.val.render()
	if s.cond != nil {
		min += " if " + s.cond.print(false, lvIf)
		full += " if " + s.cond.print(true, lvIf)
		want += " if " + s.cond.render()
	}
	return
}

func c02check(min, full, want string) (ok bool, detail, symptom string) {
	p1, e1, pp1 := interp.Parse(min, "<c02>", nil)
	if p1 == nil {
		return false, fmt.Sprintf("minimal text %q does not parse (%s%s); expected grouping %s", min, firstLine(e1), pp1, want), "minimal-rejected"
	}
	got1 := p1.String()
	if got1 != want {
		return false, fmt.Sprintf("%q parses as %s, table prescribes %s", min, got1, want), "wrong-grouping"
	}
	p2, e2, pp2 := interp.Parse(full, "<c02>", nil)
	if p2 == nil {
		return false, fmt.Sprintf("fully parenthesised text %q does not parse (%s%s)", full, firstLine(e2), pp2), "full-rejected"
	}
	if got2 := p2.String(); got2 != got1 {
		return false, fmt.Sprintf("adding the implied parentheses changes the parse: %q → %s but %q → %s", min, got1, full, got2), "parentheses-change-parse"
	}
	return true, "", ""
}

func firstLine(s string) string {
	ls := strings.Split(strings.TrimSpace(s), "\n")
	if len(ls) > 1 {
		return ls[1]
	}
	return s
}

// climb builds the tree the documented table prescribes for a flat `a o1 b o2 c …`.
func c02climb(operands []*pexpr, ops []string) *pexpr {
	pos := 0
	var parse func(minLv int) *pexpr
	parse = func(minLv int) *pexpr {
		left := operands[pos]
		for pos < len(ops) && infixLevel(ops[pos]) >= minLv {
			op := ops[pos]
			pos++
			right := parse(infixLevel(op) + 1) // all binary levels are left-associative
			left = &pexpr{k: kInfix, text: op, kids: []*pexpr{left, right}}
		}
		return left
	}
	return parse(0)
}

func init() {
	fw.Register(&fw.Prop{
		ID:    "C02",
		Level: "exploration",
		Rule: "exhaustive: all 23×23 ordered infix pairs and 23³ triples (flat text vs. the grouping prescribed by the documented table), every construct (23 infix, 4 prefix, 12 chain contexts with/without arguments and chain argument, call, index, if, if-else, :=, 14 compound assignments, =>, grouping) nested in every operand position of every other construct, " +
			"jump statements (plain and guarded) over every construct; plus seed-determined random trees of depth ≤ 5 with operand shapes identifier/int/call/index/grouped expression. " +
			"Each case: Parse(minimal text).String() == Parse(fully parenthesised text).String() == rendering by the independent precedence model. distinct = distinct expected renderings",
		Assumptions: []string{
			"the precedence table of docs/reference/operators.md as transcribed in c02.go (levels, all binary levels left-associative, := and op= right-associative)",
			"Program.String() prints every infix/prefix/if/assign node with its own parentheses (the observable grouping)",
			"combinations the table cannot define (an assignment as the right operand of a binary operator, `return x if c else d`) are not generated",
		},
		Exhaustive: func(string) bool { return true },
		Floor: func(m *fw.Merged) string {
			if m.Counters["pairs"] < 529 || m.Counters["triples"] < 12167 || m.Counters["nested"] < 3000 {
				return fmt.Sprintf("exhaustive lists incomplete: pairs=%d triples=%d nested=%d", m.Counters["pairs"], m.Counters["triples"], m.Counters["nested"])
			}
			return ""
		},
		Run: runC02,
	})
}

// c02oneLiners: expressions over the current stdin line `\` for the -n / -p one-liner entry points; the
// expression given on the command line groups as it is written: adding the implied outer parentheses
// changes nothing, and the two templates evaluate the same values.
var c02oneLiners = []string{`\.I * 2 + 1`, `\ + "!"`, `"big" if \.I > 3 else "small"`, `x := \.I * 2`, `\.I ** 2 - 1`, `10 - \.I * 2`, `\.I > 3 && \.I < 9`,
	`\.I => y`, `[\.I, 1][0] + 5`, `\.uc`, `\.I - 1 - 1`, `\.I if \.I > 3 else 0 - 1`, `!(\.I > 3)`, `\.I % 2 == 0 || \.I`, `"<" + \ + ">" * 2`, `\.I <=> 3`, `\.I * (2 + 1)`,
	`\.I.{|n| n + 1} * 3`, `\.I@{|b| b}.len + 1`}

func runC02(w *fw.W) {
	if w.Take() {
		w.Begin("one-liner templates", nil)
		var vs violSet
		n := 0
		runOL := func(tmpl, expr string) (string, int) {
			var out bytes.Buffer
			code := runscript.RunSource(fmt.Sprintf(tmpl, expr), "<c02>", strings.NewReader("3\n4\n12\n"), &out)
			return out.String(), code
		}
		for _, e := range c02oneLiners {
			// -p prints what -n with an explicit print prints
			ref, rc := runOL(runscript.ReadStdinLinesTemplate, "("+e+").p")
			for _, v := range []struct{ name, tmpl, expr string }{
				{"-p", runscript.ReadStdinLinesAndWritesTemplate, e},
				{"-p with outer parentheses", runscript.ReadStdinLinesAndWritesTemplate, "(" + e + ")"},
				{"-n with outer parentheses and print", runscript.ReadStdinLinesTemplate, "((" + e + ")).p"},
			} {
				got, code := runOL(v.tmpl, v.expr)
				n++
				if got != ref || code != rc {
					vs.add("C02|one-liner|"+v.name, fmt.Sprintf("one-liner `%s` with stdin 3/4/12: %s prints %q (exit %d); `(%s).p` under -n prints %q (exit %d)", e, v.name, got, code, e, ref, rc), e)
				}
			}
			if rc != 0 || ref == "" {
				vs.add("C02|one-liner|reference-does-not-evaluate", fmt.Sprintf("`(%s).p` under -n: exit %d, output %q", e, rc, ref), e)
			}
		}
		r := fw.Result{Verdict: fw.Held, Evals: n, Counters: map[string]int{"one_liner_runs": n}, DKeys: []string{"one-liner"}}
		vs.finish(&r)
		w.End(r)
	}
	ctors := c02ctors()
	type item struct {
		min, full, want, key, counter string
	}
	runBatch := func(label string, gen func(emit func(item))) {
		if !w.Take() {
			return
		}
		w.Begin(label, map[string]any{"batch": label})
		var vs violSet
		dk := map[string]struct{}{}
		n := 0
		counters := map[string]int{}
		var sample string
		gen(func(it item) {
			n++
			counters[it.counter]++
			w.Note(it.min)
			ok, detail, sym := c02check(it.min, it.full, it.want)
			if !ok {
				vs.add("C02|"+it.key+"|"+sym, detail, map[string]string{"min": it.min, "full": it.full, "want": it.want})
			} else if sample == "" && len(it.min) > 12 {
				sample = it.min + "  ≡  " + it.full + "  →  " + it.want
			}
			dk[it.want] = struct{}{}
		})
		r := fw.Result{Verdict: fw.Held, Evals: n, Counters: counters}
		for k := range dk {
			r.DKeys = append(r.DKeys, k)
		}
		if sample != "" {
			r.Sample = sample
		}
		vs.finish(&r)
		w.End(r)
	}

	ops := c02infix
	// pairs
	runBatch("infix pairs", func(emit func(item)) {
		for _, o1 := range ops {
			for _, o2 := range ops {
				t := c02climb([]*pexpr{atom("a"), atom("b"), atom("c")}, []string{o1.op, o2.op})
				emit(item{"a " + o1.op + " b " + o2.op + " c", t.print(true, lvIf), t.render(),
					fmt.Sprintf("pair|L%d|L%d", o1.lv, o2.lv), "pairs"})
			}
		}
	})
	// numeric literal operands (a minus sign written in a number belongs to the number)
	runBatch("infix over numeric literals", func(emit func(item)) {
		lits := []string{"2", "-2", "2.5", "-2.5", "0", "-1"}
		for _, o1 := range ops {
			for _, x := range lits {
				for _, y := range lits {
					t := c02climb([]*pexpr{atom(x), atom(y)}, []string{o1.op})
					emit(item{x + " " + o1.op + " " + y, t.print(true, lvIf), t.render(), fmt.Sprintf("literal-operands|L%d", o1.lv), "literal_operands"})
					t3 := c02climb([]*pexpr{atom(x), atom("b"), atom(y)}, []string{o1.op, "**"})
					emit(item{x + " " + o1.op + " b ** " + y, t3.print(true, lvIf), t3.render(), fmt.Sprintf("literal-operands|L%d|**", o1.lv), "literal_operands"})
				}
			}
		}
	})
	// array-literal elements (and index arguments): an element groups like the same expression anywhere else, also behind
	// the unpack operator `*`
	runBatch("array-literal elements", func(emit func(item)) {
		for _, pre := range []string{"*", "-", "!", ""} {
			for _, inner := range ctors {
				if inner.arity > 2 || strings.HasPrefix(inner.name, "chain-multiline") || strings.HasPrefix(inner.name, "chain-args-multiline") {
					continue
				}
				names := 0
				kids := freshAtoms(inner.arity, &names)
				if pre != "" {
					kids[0] = &pexpr{k: kPrefix, text: pre, kids: []*pexpr{kids[0]}}
				}
				t := inner.mk(kids)
				if t.k == kAssign || t.k == kCAssign || t.k == kRAssign {
					continue
				}
				for _, wrap := range []struct{ l, r, wl, wr string }{{"[", "]", "[", "]"}, {"[x, ", ", y]", "[x, ", ", y]"}} {
					emit(item{wrap.l + t.print(false, lvIf) + wrap.r, wrap.l + t.print(true, lvIf) + wrap.r, wrap.wl + t.render() + wrap.wr,
						fmt.Sprintf("array-element|%s|%s", pre, ctorClass(inner.name)), "array_elements"})
				}
			}
		}
	})
	// triples, one batch per first operator
	for _, o1 := range ops {
		o1 := o1
		runBatch("infix triples "+o1.op, func(emit func(item)) {
			for _, o2 := range ops {
				for _, o3 := range ops {
					t := c02climb([]*pexpr{atom("a"), atom("b"), atom("c"), atom("d")}, []string{o1.op, o2.op, o3.op})
					emit(item{"a " + o1.op + " b " + o2.op + " c " + o3.op + " d", t.print(true, lvIf), t.render(),
						fmt.Sprintf("triple|L%d|L%d|L%d", o1.lv, o2.lv, o3.lv), "triples"})
				}
			}
		})
	}
	// every construct nested in every position of every other construct, one batch per outer construct
	for _, outer := range ctors {
		outer := outer
		runBatch("nested in "+outer.name, func(emit func(item)) {
			for pos := 0; pos < outer.arity; pos++ {
				for _, inner := range ctors {
					names := 0
					kids := freshAtoms(outer.arity, &names)
					kids[pos] = inner.mk(freshAtoms(inner.arity, &names))
					t := outer.mk(kids)
					st := &c02stmt{val: t}
					min, full, want := st.texts()
					emit(item{min, full, want, fmt.Sprintf("nested|%s|pos%d|%s", ctorClass(outer.name), pos, ctorClass(inner.name)), "nested"})
				}
			}
		})
	}
	// jump statements over every construct (value and, for return, every guard condition)
	for _, j := range []string{"return", "raise", "yield", "defer"} {
		for ci, inner := range ctors {
			j, inner, ci := j, inner, ci
			if j != "return" && ci%8 != 0 {
				// the other jumps share the grammar rule; they are run over a fixed eighth of the constructs
				continue
			}
			runBatch("jump "+j+" "+inner.name, func(emit func(item)) {
				names := 0
				v := inner.mk(freshAtoms(inner.arity, &names))
				st := &c02stmt{jump: j, val: v}
				min, full, want := st.texts()
				emit(item{min, full, want, "jump|" + j + "|value|" + ctorClass(inner.name), "jumps"})
				for _, c := range ctors {
					n2 := names
					cond := c.mk(freshAtoms(c.arity, &n2))
					st := &c02stmt{jump: j, val: v, cond: cond}
					min, full, want := st.texts()
					emit(item{min, full, want, "jump|" + j + "|guarded|" + ctorClass(inner.name) + "|" + ctorClass(c.name), "jumps"})
				}
			})
		}
	}
	// random deeper trees
	nb := w.Pick(60, 6000)
	for b := 0; b < nb; b++ {
		b := b
		runBatch(fmt.Sprintf("random trees %d", b), func(emit func(item)) {
			rng := w.Rand()
			for i := 0; i < 200; i++ {
				t := c02random(rng, 2+rng.Intn(4), ctors)
				st := &c02stmt{val: t}
				if rng.Intn(8) == 0 {
					st.jump = []string{"return", "raise", "yield", "defer"}[rng.Intn(4)]
					if rng.Intn(2) == 0 {
						st.cond = c02random(rng, 2, ctors)
					}
				}
				min, full, want := st.texts()
				emit(item{min, full, want, "random|root:" + t.kindKey(), "random"})
			}
		})
	}
}

func ctorClass(name string) string {
	f := strings.Fields(name)
	switch f[0] {
	case "infix":
		return fmt.Sprintf("infix(L%d)", infixLevel(f[1]))
	case "prefix", "chain", "chain-args", "compound":
		return f[0]
	}
	return name
}
