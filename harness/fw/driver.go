package fw

import (
	"bufio"
	"bytes"
	"crypto/sha1"
	"encoding/json"
	"fmt"
	"os"
	"os/exec"
	"path/filepath"
	"regexp"
	"runtime"
	"sort"
	"strconv"
	"strings"
	"sync"
	"time"
)

// Violation as merged by the driver.
type Violation struct {
	VKey   string `json:"vkey"`
	Detail string `json:"detail"`
	Case   string `json:"case"`
	Idx    int    `json:"case_index"`
	Replay any    `json:"replay,omitempty"`
	Count  int    `json:"count"`
	Known  bool   `json:"known"`
	What   string `json:"what,omitempty"`
}

// Merged is the driver-side aggregate of a run.
type Merged struct {
	Cases        int
	Evaluations  int
	Held         int
	Violated     int
	Inconclusive map[string]int
	Distinct     map[string]struct{}
	Counters     map[string]int
	Samples      []any
	Violations   map[string]*Violation // by vkey
	Crashes      int
	Tier         string
	Seed         int64
	Extra        map[string]any
}

// Driver runs a property.
type Driver struct {
	Prop     *Prop
	Tier     string
	Seed     int64
	VerifDir string
	Bin      string
	RaceBin  string
	TmpDir   string
}

// KnownFinding is one line of known_findings.jsonl.
type KnownFinding struct {
	Property string `json:"property"`
	Status   string `json:"status"` // known | fixed
	Key      string `json:"key"`
	What     string `json:"what"`
	Commit   string `json:"commit,omitempty"`
}

// LoadKnown reads known_findings.jsonl (never written at run time).
func LoadKnown(path string) []KnownFinding {
	f, err := os.Open(path)
	if err != nil {
		return nil
	}
	defer f.Close()
	var out []KnownFinding
	sc := bufio.NewScanner(f)
	sc.Buffer(make([]byte, 1<<20), 1<<24)
	for sc.Scan() {
		line := strings.TrimSpace(sc.Text())
		if line == "" || strings.HasPrefix(line, "#") {
			continue
		}
		var k KnownFinding
		if json.Unmarshal([]byte(line), &k) == nil {
			out = append(out, k)
		}
	}
	return out
}

type shardState struct {
	shard int
	skip  int
	file  string
}

// classify a worker death from its stderr tail.
var fatalRe = regexp.MustCompile(`(?m)^(fatal error: .*|panic: .*|SIG[A-Z]+: .*|runtime: .*out of memory.*|WARNING: DATA RACE)`)

func classifyDeath(stderr string) (kind string, msg string) {
	m := fatalRe.FindString(stderr)
	low := strings.ToLower(stderr)
	switch {
	case strings.Contains(low, "out of memory") || strings.Contains(low, "cannot allocate memory"):
		return "memory", m
	case m != "":
		return "crash", m
	}
	return "crash", "worker died: " + lastLines(stderr, 3)
}

func lastLines(s string, n int) string {
	ls := strings.Split(strings.TrimSpace(s), "\n")
	if len(ls) > n {
		ls = ls[len(ls)-n:]
	}
	return strings.Join(ls, " | ")
}

// Run executes the check and returns the process exit code.
func (d *Driver) Run() int {
	p := d.Prop
	t0 := time.Now()
	nw := runtime.NumCPU()
	if p.Workers != nil {
		if k := p.Workers(d.Tier); k > 0 {
			nw = k
		}
	}
	tmp, err := os.MkdirTemp("", "pv-"+p.ID+"-")
	if err != nil {
		fmt.Println("cannot create temp dir:", err)
		return 2
	}
	d.TmpDir = tmp
	defer os.RemoveAll(tmp)

	m := &Merged{Inconclusive: map[string]int{}, Distinct: map[string]struct{}{}, Counters: map[string]int{},
		Violations: map[string]*Violation{}, Tier: d.Tier, Seed: d.Seed, Extra: map[string]any{}}

	var mu sync.Mutex
	var wg sync.WaitGroup
	for s := 0; s < nw; s++ {
		wg.Add(1)
		go func(shard int) {
			defer wg.Done()
			d.runShard(shard, nw, m, &mu)
		}(s)
	}
	wg.Wait()

	if p.Post != nil {
		p.Post(d, m)
	}
	return d.Finish(m, t0)
}

func (d *Driver) runShard(shard, nw int, m *Merged, mu *sync.Mutex) {
	p := d.Prop
	skip := 0
	for attempt := 0; attempt < 200; attempt++ {
		out := filepath.Join(d.TmpDir, fmt.Sprintf("s%d-a%d.jsonl", shard, attempt))
		errf := filepath.Join(d.TmpDir, fmt.Sprintf("s%d-a%d.stderr", shard, attempt))
		bin := d.Bin
		if p.Race || (p.RaceShard != nil && p.RaceShard(shard, nw)) {
			bin = d.RaceBin
		}
		cmd := exec.Command(bin, "worker", p.ID, d.Tier, strconv.FormatInt(d.Seed, 10),
			strconv.Itoa(shard), strconv.Itoa(nw), strconv.Itoa(skip), "-1", out)
		ef, _ := os.Create(errf)
		cmd.Stderr = ef
		cmd.Stdout = ef
		cmd.Env = append(os.Environ(), "VERIF_DIR="+d.VerifDir, "VERIF_TMP="+d.TmpDir, "VERIF_BIN="+d.Bin,
			"GOGC=400", "GOMAXPROCS=2")
		if p.Env != nil {
			for _, kv := range p.Env(d.Tier) {
				cmd.Env = append(cmd.Env, strings.ReplaceAll(kv, "$VERIF_TMP", d.TmpDir))
			}
		}
		runErr := cmd.Run()
		ef.Close()
		stderrB, _ := os.ReadFile(errf)
		if len(stderrB) > 1<<20 {
			stderrB = stderrB[len(stderrB)-(1<<20):]
		}
		done, open, abort := d.mergeFile(out, m, mu)
		if done {
			return
		}
		// worker died before finishing
		if open == nil {
			mu.Lock()
			m.Crashes++
			v := m.Violations["harness|worker-died-outside-case"]
			if v == nil {
				v = &Violation{VKey: "harness|worker-died-outside-case", Detail: fmt.Sprintf("exit=%v stderr=%s", runErr, lastLines(string(stderrB), 12))}
				m.Violations[v.VKey] = v
			}
			v.Count++
			mu.Unlock()
			return
		}
		mu.Lock()
		m.Cases++
		m.Evaluations++
		if abort != "" && p.NoReturnIsViolation {
			m.Violated++
			key := p.ID + "|no-return|" + abort
			v := m.Violations[key]
			if v == nil {
				at, _ := json.Marshal(open.At)
				v = &Violation{VKey: key, Case: open.Case, Idx: open.Idx, Replay: open.Replay,
					Detail: "case stopped by the " + abort + " guard (does not return / allocates without bound) at " + string(at)}
				m.Violations[key] = v
			}
			v.Count++
		} else if abort != "" {
			m.Inconclusive[abort]++
			if l, _ := m.Extra["aborted_cases"].([]string); len(l) < 20 {
				at, _ := json.Marshal(open.At)
				m.Extra["aborted_cases"] = append(l, abort+": "+open.Case+" at "+truncate(string(at), 300))
			}
		} else {
			kind, msg := classifyDeath(string(stderrB))
			if kind == "memory" {
				m.Inconclusive["memory"]++
			} else {
				m.Crashes++
				m.Violated++
				key := "worker-death|" + normalizeFatal(msg)
				v := m.Violations[key]
				if v == nil {
					v = &Violation{VKey: key, Case: open.Case, Idx: open.Idx, Replay: open.Replay,
						Detail: msg + "\n" + tailFrames(string(stderrB))}
					m.Violations[key] = v
				}
				v.Count++
			}
		}
		mu.Unlock()
		skip = open.Idx + 1
	}
}

func normalizeFatal(msg string) string {
	msg = regexp.MustCompile(`0x[0-9a-f]+`).ReplaceAllString(msg, "0x?")
	msg = regexp.MustCompile(`\d+`).ReplaceAllString(msg, "N")
	if len(msg) > 120 {
		msg = msg[:120]
	}
	return msg
}

func tailFrames(stderr string) string {
	var keep []string
	for _, l := range strings.Split(stderr, "\n") {
		if strings.HasPrefix(l, "github.com/Syuparn/pangaea") || strings.HasPrefix(l, "fatal error") || strings.HasPrefix(l, "panic:") {
			keep = append(keep, l)
			if len(keep) > 12 {
				break
			}
		}
	}
	return strings.Join(keep, "\n")
}

type openCase struct {
	Idx    int
	Case   string
	Replay any
	At     any
}

func (d *Driver) mergeFile(path string, m *Merged, mu *sync.Mutex) (done bool, open *openCase, abort string) {
	f, err := os.Open(path)
	if err != nil {
		return false, nil, ""
	}
	defer f.Close()
	sc := bufio.NewScanner(f)
	sc.Buffer(make([]byte, 1<<20), 1<<28)
	mu.Lock()
	defer mu.Unlock()
	for sc.Scan() {
		line := sc.Bytes()
		if len(bytes.TrimSpace(line)) == 0 {
			continue
		}
		var rec struct {
			B      *int    `json:"b"`
			Case   string  `json:"case"`
			Replay any     `json:"replay"`
			E      *Result `json:"e"`
			Done   bool    `json:"done"`
			Abort  string  `json:"abort"`
			I      int     `json:"i"`
			At     any     `json:"at"`
		}
		if err := json.Unmarshal(line, &rec); err != nil {
			continue // torn line of a dying worker
		}
		switch {
		case rec.Done:
			return true, nil, ""
		case rec.Abort != "":
			abort = rec.Abort
			if open == nil {
				open = &openCase{Idx: rec.I, Case: rec.Case, Replay: rec.Replay}
			}
			open.At = rec.At
		case rec.B != nil:
			open = &openCase{Idx: *rec.B, Case: rec.Case, Replay: rec.Replay}
		case rec.E != nil:
			open = nil
			m.add(rec.E)
		}
	}
	return false, open, abort
}

func (m *Merged) add(r *Result) {
	m.Cases++
	n := r.Evals
	if n <= 0 {
		n = 1
	}
	m.Evaluations += n
	switch r.Verdict {
	case Held:
		m.Held++
	case Violated:
		m.Violated++
		m.addViolation(r.VKey, r.Detail, r.Case, r.Idx, r.Replay)
	default:
		reason := r.Reason
		if reason == "" {
			reason = "unspecified"
		}
		m.Inconclusive[reason]++
	}
	for _, sv := range r.More {
		rp := sv.Replay
		if rp == nil {
			rp = r.Replay
		}
		m.addViolation(sv.VKey, sv.Detail, r.Case, r.Idx, rp)
	}
	for _, k := range r.DKeys {
		m.Distinct[k] = struct{}{}
	}
	for k, v := range r.Counters {
		m.Counters[k] += v
	}
	if r.Sample != nil && len(m.Samples) < 200 {
		m.Samples = append(m.Samples, r.Sample)
	}
}

func (m *Merged) addViolation(key, detail, cas string, idx int, replay any) {
	if key == "" {
		key = "unkeyed"
	}
	v := m.Violations[key]
	if v == nil {
		v = &Violation{VKey: key, Detail: detail, Case: cas, Idx: idx, Replay: replay}
		m.Violations[key] = v
	} else if idx < v.Idx {
		// keep the smallest-index witness so output is deterministic across shard timing
		v.Detail, v.Case, v.Idx, v.Replay = detail, cas, idx, replay
	}
	v.Count++
}

// AddViolation lets a Post step report a violation.
func (m *Merged) AddViolation(key, detail, cas string, replay any) {
	m.Violated++
	m.addViolation(key, detail, cas, 1<<30, replay)
}

// Finish applies known findings, writes evidence and replays, prints the verdict lines.
func (d *Driver) Finish(m *Merged, t0 time.Time) int {
	p := d.Prop
	known := LoadKnown(filepath.Join(d.VerifDir, "known_findings.jsonl"))
	knownByKey := map[string]KnownFinding{}
	for _, k := range known {
		if k.Property == p.ID && k.Status == "known" {
			knownByKey[k.Key] = k
		}
	}
	var keys []string
	for k := range m.Violations {
		keys = append(keys, k)
	}
	sort.Strings(keys)
	exit := 0
	var unknown []*Violation
	var knownSeen []map[string]any
	os.MkdirAll(filepath.Join(d.VerifDir, "replays"), 0o755)
	for _, k := range keys {
		v := m.Violations[k]
		if kf, ok := knownByKey[k]; ok {
			v.Known = true
			v.What = kf.What
			fmt.Printf("KNOWN-FINDING: property=%s %s [key=%s, observed %d×]\n", p.ID, kf.What, k, v.Count)
			knownSeen = append(knownSeen, map[string]any{"key": k, "what": kf.What, "count": v.Count})
			continue
		}
		unknown = append(unknown, v)
	}
	printed := 0
	for _, v := range unknown {
		h := sha1.Sum([]byte(v.VKey))
		rp := filepath.Join(d.VerifDir, "replays", fmt.Sprintf("%s-%x.json", p.ID, h[:5]))
		b, _ := json.MarshalIndent(map[string]any{
			"property": p.ID, "tier": d.Tier, "seed": d.Seed, "case_index": v.Idx, "case": v.Case,
			"vkey": v.VKey, "detail": v.Detail, "replay": v.Replay, "count": v.Count,
		}, "", " ")
		os.WriteFile(rp, b, 0o644)
		fmt.Printf("VIOLATION property=%s replay=%s\n", p.ID, rp)
		if printed < 12 {
			fmt.Printf("  key: %s (%d×)\n  %s\n", v.VKey, v.Count, indent(truncate(v.Detail, 1200)))
		} else {
			fmt.Printf("  key: %s (%d×)\n", v.VKey, v.Count)
		}
		printed++
		exit = 1
	}

	floorMsg := ""
	if p.Floor != nil {
		floorMsg = p.Floor(m)
	}
	distinct := len(m.Distinct)
	ev := map[string]any{
		"property_id": p.ID,
		"tier":        d.Tier,
		"seed":        d.Seed,
		"level":       p.Level,
		"wall_s":      float64(time.Since(t0).Milliseconds()) / 1000,
		"violations":  len(unknown),
		"assumptions": p.Assumptions,
	}
	samples := m.Samples
	if len(samples) > 12 {
		// spread
		var sp []any
		step := len(samples) / 12
		for i := 0; i < len(samples) && len(sp) < 12; i += step {
			sp = append(sp, samples[i])
		}
		samples = sp
	}
	if len(samples) == 0 {
		samples = []any{}
	}
	cov := map[string]any{
		"evaluations":         m.Evaluations,
		"cases":               m.Cases,
		"distinct_nontrivial": distinct,
		"rule":                p.Rule,
		"samples":             samples,
		"held":                m.Held,
		"violated_cases":      m.Violated,
		"inconclusive":        m.Inconclusive,
		"counters":            m.Counters,
		"worker_crashes":      m.Crashes,
		"known_findings_seen": knownSeen,
		"exhaustive":          p.Exhaustive != nil && p.Exhaustive(d.Tier),
	}
	for k, v := range m.Extra {
		cov[k] = v
	}
	if len(unknown) > 0 {
		var vs []map[string]any
		for _, v := range unknown {
			vs = append(vs, map[string]any{"key": v.VKey, "count": v.Count, "detail": truncate(v.Detail, 400)})
		}
		cov["violation_list"] = vs
	}
	if floorMsg != "" {
		cov["floor_not_reached"] = floorMsg
	}
	ev["coverage"] = cov
	os.MkdirAll(filepath.Join(d.VerifDir, "evidence"), 0o755)
	b, _ := json.MarshalIndent(ev, "", " ")
	os.WriteFile(filepath.Join(d.VerifDir, "evidence", p.ID+".json"), append(b, '\n'), 0o644)

	inc := 0
	for _, n := range m.Inconclusive {
		inc += n
	}
	fmt.Printf("%s %s seed=%d: cases=%d evaluations=%d held=%d violated=%d inconclusive=%d distinct_nontrivial=%d crashes=%d wall=%.1fs\n",
		p.ID, d.Tier, d.Seed, m.Cases, m.Evaluations, m.Held, m.Violated, inc, distinct, m.Crashes, time.Since(t0).Seconds())
	if len(m.Counters) > 0 {
		var ck []string
		for k := range m.Counters {
			ck = append(ck, k)
		}
		sort.Strings(ck)
		var parts []string
		for _, k := range ck {
			parts = append(parts, fmt.Sprintf("%s=%d", k, m.Counters[k]))
		}
		fmt.Println("  observed:", strings.Join(parts, " "))
	}
	if exit == 0 && floorMsg != "" {
		fmt.Println("INCONCLUSIVE: floor not reached:", floorMsg)
		return 2
	}
	return exit
}

func truncate(s string, n int) string {
	if len(s) > n {
		return s[:n] + "…"
	}
	return s
}

func indent(s string) string { return strings.ReplaceAll(s, "\n", "\n  ") }
