// Package fw is the worker/driver plumbing shared by all property checks:
// seed-determined case lists sharded over worker processes, BEGIN/END logging
// so that a worker death is attributed to a case, merging, known-findings
// matching, evidence writing and exit codes.
package fw

import (
	"bufio"
	"encoding/json"
	"fmt"
	"hash/fnv"
	"math/rand"
	"os"
	"runtime"
	"sync"
	"sync/atomic"
	"syscall"
	"time"
)

// Verdicts.
const (
	Held         = "held"
	Violated     = "violated"
	Inconclusive = "inconclusive"
)

// Result of one case.
type Result struct {
	Idx      int            `json:"i"`
	Case     string         `json:"case,omitempty"`
	Verdict  string         `json:"v"`
	Reason   string         `json:"reason,omitempty"` // inconclusive reason
	VKey     string         `json:"vkey,omitempty"`   // canonical violation key (known-findings match)
	Detail   string         `json:"detail,omitempty"` // violation detail (observed vs expected)
	DKeys    []string       `json:"dk,omitempty"`     // distinct non-trivial keys covered by this case
	Evals    int            `json:"n,omitempty"`      // evaluations performed by this case (default 1)
	Counters map[string]int `json:"c,omitempty"`
	Sample   any            `json:"s,omitempty"`
	Replay   any            `json:"replay,omitempty"`
	// more violations found inside one (batched) case
	More []SubViolation `json:"more,omitempty"`
}

// SubViolation is an additional violation reported by a batched case.
type SubViolation struct {
	VKey   string `json:"vkey"`
	Detail string `json:"detail"`
	Replay any    `json:"replay,omitempty"`
}

// Prop is one property check.
type Prop struct {
	ID    string
	Level string // exploration | fault_enumeration
	Rule  string // how cases are generated and what is distinct/non-trivial
	// Run iterates the seed-determined case list; for each case it calls
	// w.Take() and, if true, w.Begin / w.End.
	Run func(w *W)
	// Floor returns a non-empty message when the merged run observed too little.
	Floor func(ev *Merged) string
	// Assumptions listed in the evidence file.
	Assumptions []string
	// Workers overrides the number of worker processes (0: NumCPU).
	Workers func(tier string) int
	// Race: run workers from the -race binary.
	Race bool
	// RaceShard selects the -race binary per shard (overrides Race when set).
	RaceShard func(shard, n int) bool
	// CaseTimeout overrides the per-case wall-clock watchdog (inconclusive when it fires).
	CaseTimeout time.Duration
	// Exhaustive reports whether the tier enumerates its stated finite space completely.
	Exhaustive func(tier string) bool
	// Post runs in the driver after merging (e.g. cross-process comparisons).
	Post func(d *Driver, m *Merged)
	// Env returns extra environment for workers.
	Env func(tier string) []string
	// NoReturnIsViolation: a case stopped by the watchdog or by the heap guard is a
	// violation ("does not return" / "allocates without bound") instead of inconclusive.
	NoReturnIsViolation bool
}

var registry = map[string]*Prop{}

// Register adds a property check.
func Register(p *Prop) { registry[p.ID] = p }

// Get returns a registered property.
func Get(id string) *Prop { return registry[id] }

// IDs lists registered ids.
func IDs() []string {
	var ids []string
	for id := range registry {
		ids = append(ids, id)
	}
	return ids
}

// W is the worker-side context.
type W struct {
	Prop    string
	Tier    string
	Seed    int64
	Shard   int
	N       int
	Skip    int // skip case indexes < Skip
	Only    int // >=0: run only this case index (replay)
	idx     int
	out     *bufio.Writer
	outF    *os.File
	cur     *Result
	curMu   sync.Mutex
	started atomic.Int64 // unix nanos of current case begin (0: idle)
	timeout time.Duration
	// SampleEvery: keep the Sample of every k-th case only (others dropped) to bound log size.
	sampleBudget int
}

// Thorough reports the tier.
func (w *W) Thorough() bool { return w.Tier == "thorough" }

// Pick returns q for quick and t for thorough.
func (w *W) Pick(q, t int) int {
	if w.Thorough() {
		return t
	}
	return q
}

// Take advances the case counter and reports whether this worker owns the case.
func (w *W) Take() bool {
	i := w.idx
	w.idx++
	if w.Only >= 0 {
		return i == w.Only
	}
	if i < w.Skip {
		return false
	}
	return i%w.N == w.Shard
}

// Index is the index of the case last offered by Take.
func (w *W) Index() int { return w.idx - 1 }

// Rand returns the PRNG of the current case (determined by seed, property and index).
func (w *W) Rand() *rand.Rand { return w.RandFor(w.Index()) }

// RandFor returns the PRNG of case i.
func (w *W) RandFor(i int) *rand.Rand {
	h := fnv.New64a()
	fmt.Fprintf(h, "%s|%d|%d", w.Prop, w.Seed, i)
	return rand.New(rand.NewSource(int64(h.Sum64())))
}

// GlobalRand returns a PRNG determined by seed, property and a label (same in all shards).
func (w *W) GlobalRand(label string) *rand.Rand {
	h := fnv.New64a()
	fmt.Fprintf(h, "%s|%d|g|%s", w.Prop, w.Seed, label)
	return rand.New(rand.NewSource(int64(h.Sum64())))
}

func (w *W) writeLine(v any) {
	b, err := json.Marshal(v)
	if err != nil {
		b, _ = json.Marshal(map[string]any{"marshal_error": err.Error()})
	}
	w.out.Write(b)
	w.out.WriteByte('\n')
	w.out.Flush()
}

// Begin logs the case before it is executed.
func (w *W) Begin(caseID string, replay any) {
	w.curMu.Lock()
	w.cur = &Result{Idx: w.Index(), Case: caseID, Replay: replay}
	w.curMu.Unlock()
	w.writeLine(map[string]any{"b": w.Index(), "case": caseID, "replay": replay})
	w.started.Store(time.Now().UnixNano())
}

// CounterHook, when set, returns process-wide tallies; End adds their growth since the
// previous End to the case's counters.
var CounterHook func() map[string]int

var lastHook = map[string]int{}

// End logs the result of the current case.
func (w *W) End(r Result) {
	w.started.Store(0)
	if CounterHook != nil {
		for k, v := range CounterHook() {
			if d := v - lastHook[k]; d > 0 {
				if r.Counters == nil {
					r.Counters = map[string]int{}
				}
				r.Counters[k] += d
			}
			lastHook[k] = v
		}
	}
	w.curMu.Lock()
	cur := w.cur
	w.cur = nil
	w.curMu.Unlock()
	r.Idx = cur.Idx
	if r.Case == "" {
		r.Case = cur.Case
	}
	if r.Verdict == Violated || len(r.More) > 0 {
		if r.Replay == nil {
			r.Replay = cur.Replay
		}
	} else {
		r.Replay = nil
	}
	if r.Sample != nil {
		if w.sampleBudget <= 0 {
			r.Sample = nil
		} else {
			w.sampleBudget--
		}
	}
	w.writeLine(map[string]any{"e": r})
}

// Note records progress inside the current case; it is written out if the worker is
// stopped by the watchdog or dies, so the offending sub-case can be identified.
func (w *W) Note(at any) {
	w.curMu.Lock()
	if w.cur != nil {
		w.cur.Sample = at
	}
	w.curMu.Unlock()
}

// Held is shorthand for End with a held verdict.
func (w *W) Held(dkeys []string, sample any) {
	w.End(Result{Verdict: Held, DKeys: dkeys, Sample: sample})
}

// RunWorker executes the worker side of a property.
func RunWorker(p *Prop, tier string, seed int64, shard, n, skip, only int, outPath string) {
	f, err := os.OpenFile(outPath, os.O_CREATE|os.O_WRONLY|os.O_APPEND, 0o644)
	if err != nil {
		fmt.Fprintln(os.Stderr, "worker: ", err)
		os.Exit(9)
	}
	w := &W{Prop: p.ID, Tier: tier, Seed: seed, Shard: shard, N: n, Skip: skip, Only: only,
		out: bufio.NewWriterSize(f, 1<<16), outF: f, sampleBudget: 40}
	w.timeout = 120 * time.Second
	if p.CaseTimeout > 0 {
		w.timeout = p.CaseTimeout
	}
	if !RaceBuild {
		// address-space cap: a runaway allocation fails inside this worker ("cannot allocate
		// memory" → memory proviso) instead of exhausting the machine
		lim := uint64(6 << 30)
		syscall.Setrlimit(syscall.RLIMIT_AS, &syscall.Rlimit{Cur: lim, Max: lim})
	}
	go w.watchdog()
	p.Run(w)
	w.writeLine(map[string]any{"done": true, "cases": w.idx})
	f.Close()
}

// watchdog ends the worker when a case runs too long (inconclusive) or the heap explodes
// (memory proviso).
func (w *W) watchdog() {
	var ms runtime.MemStats
	tick := 0
	for {
		time.Sleep(100 * time.Millisecond)
		tick++
		st := w.started.Load()
		if st != 0 && time.Since(time.Unix(0, st)) > w.timeout {
			w.abort("watchdog", 4)
		}
		if tick%2 == 0 {
			runtime.ReadMemStats(&ms)
			if ms.HeapAlloc > 2<<30 {
				w.abort("memory", 3)
			}
		}
	}
}

func (w *W) abort(reason string, code int) {
	w.curMu.Lock()
	cur := w.cur
	w.curMu.Unlock()
	if cur != nil {
		// written through a separate descriptor write: the main goroutine may be mid-write,
		// so emit a full line on its own with O_APPEND semantics.
		b, _ := json.Marshal(map[string]any{"abort": reason, "i": cur.Idx, "case": cur.Case, "replay": cur.Replay, "at": cur.Sample})
		w.outF.Write(append(append([]byte("\n"), b...), '\n'))
	}
	os.Exit(code)
}
