//go:build race

package fw

// RaceBuild reports whether this binary was built with -race.
const RaceBuild = true
