// pvcheck is the driver/worker binary of the /verif runtime-monitoring checks.
package main

import (
	"encoding/json"
	"fmt"
	"os"
	"path/filepath"
	"strconv"

	"verif/fw"
	"verif/props"
)

func usage() {
	fmt.Fprintln(os.Stderr, "usage: pvcheck run <ID> <quick|thorough> | pvcheck replay <ID> <file> | pvcheck worker ...")
	os.Exit(2)
}

func seed() int64 {
	if s := os.Getenv("VERIF_SEED"); s != "" {
		if n, err := strconv.ParseInt(s, 10, 64); err == nil {
			return n
		}
	}
	return 1
}

func main() {
	if len(os.Args) < 3 {
		usage()
	}
	switch os.Args[1] {
	case "debug":
		switch os.Args[2] {
		case "pool":
			props.DebugPool()
		case "startup":
			props.DebugStartup()
		case "runone":
			props.DebugRunOne(os.Args[3])
		}
	case "run":
		if len(os.Args) < 4 {
			usage()
		}
		p := fw.Get(os.Args[2])
		if p == nil {
			fmt.Fprintln(os.Stderr, "unknown property", os.Args[2])
			os.Exit(2)
		}
		self, _ := os.Executable()
		vd := os.Getenv("VERIF_DIR")
		if vd == "" {
			vd = "/verif"
		}
		d := &fw.Driver{Prop: p, Tier: os.Args[3], Seed: seed(), VerifDir: vd, Bin: self,
			RaceBin: filepath.Join(filepath.Dir(self), "pvcheck-race")}
		os.Exit(d.Run())
	case "worker":
		// worker ID tier seed shard n skip only out
		a := os.Args[2:]
		if len(a) < 8 {
			usage()
		}
		p := fw.Get(a[0])
		sd, _ := strconv.ParseInt(a[2], 10, 64)
		shard, _ := strconv.Atoi(a[3])
		n, _ := strconv.Atoi(a[4])
		skip, _ := strconv.Atoi(a[5])
		only, _ := strconv.Atoi(a[6])
		fw.RunWorker(p, a[1], sd, shard, n, skip, only, a[7])
	case "replay":
		if len(os.Args) < 4 {
			usage()
		}
		p := fw.Get(os.Args[2])
		b, err := os.ReadFile(os.Args[3])
		if err != nil {
			fmt.Fprintln(os.Stderr, err)
			os.Exit(2)
		}
		var rp struct {
			Tier string `json:"tier"`
			Seed int64  `json:"seed"`
			Idx  int    `json:"case_index"`
			VKey string `json:"vkey"`
		}
		json.Unmarshal(b, &rp)
		out, _ := os.CreateTemp("", "pv-replay-*.jsonl")
		out.Close()
		defer os.Remove(out.Name())
		fw.RunWorker(p, rp.Tier, rp.Seed, 0, 1, 0, rp.Idx, out.Name())
		res, _ := os.ReadFile(out.Name())
		fmt.Printf("replayed case %d of %s (%s, seed %d); expected key %s\n%s", rp.Idx, p.ID, rp.Tier, rp.Seed, rp.VKey, res)
	default:
		usage()
	}
}
