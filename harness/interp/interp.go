// Package interp is the boundary wrapper around the real interpreter in /repo:
// it builds an interpreter the way runscript.setup / web/wasm/executor.go do,
// evaluates source text in a fresh enclosed scope with captured IO, recovers
// host panics and installs the fuel/depth monitor through hook H1.
package interp

import (
	"bytes"
	"fmt"
	"io"
	"runtime/debug"
	"strings"

	"github.com/Syuparn/pangaea/ast"
	"github.com/Syuparn/pangaea/di"
	"github.com/Syuparn/pangaea/evaluator"
	"github.com/Syuparn/pangaea/object"
	"github.com/Syuparn/pangaea/parser"
)

// Cutoff is the sentinel panic raised by the fuel/depth monitor.
type Cutoff struct{ Reason string }

// Interp is one interpreter (one const env), shared by many evaluations.
type Interp struct {
	Const *object.Env
}

// New builds an interpreter exactly like web/wasm/executor.go:setupEnv.
func New() *Interp {
	env := object.NewEnvWithConsts()
	env.InjectIO(strings.NewReader(""), io.Discard)
	di.InjectBuiltInProps(env)
	env.InjectFrom(object.BuiltInKernelObj)
	return &Interp{Const: env}
}

// Options of one evaluation.
type Options struct {
	Stdin    io.Reader // default: empty
	Stdout   io.Writer // default: captured buffer
	FileName string    // default: "<verif>"
	Env      *object.Env
	Fuel     int64 // max Eval calls (0: default 300000, <0: unlimited)
	Depth    int   // max nested Eval calls (0: default 20000)
	// Event sink (enter events only): kind, line, col.
	Events func(kind string, node ast.Node)
	// Reader wraps the source reader (C16 chunking); nil: strings.Reader.
	Reader func(src string) io.Reader
	// NoInjectIO leaves the const env's IO untouched.
	NoInjectIO bool
}

// Obs is what is observable at the boundary after one evaluation.
type Obs struct {
	ParseErr string
	Stdout   string
	Val      object.PanObject
	Err      *object.PanErr
	Inspect  string
	Type     string
	ErrKind  string
	ErrMsg   string
	Stack    string
	Panic    string // recovered host panic (message)
	PanicStk string
	Cutoff   string // fuel / depth
	NilVal   bool
	Evals    int64
	Env      *object.Env
	Program  *ast.Program
}

// Outcome is a short one-line rendering used in replays and samples.
func (o *Obs) Outcome() string {
	switch {
	case o.Cutoff != "":
		return "cutoff:" + o.Cutoff
	case o.Panic != "":
		return "PANIC:" + o.Panic
	case o.ParseErr != "":
		return "parse-error"
	case o.NilVal:
		return "GO-NIL"
	case o.Err != nil:
		return "err:" + o.ErrKind + ": " + o.ErrMsg
	default:
		return "val:" + o.Inspect
	}
}

// IsErr reports whether the evaluation ended in a Pangaea error.
func (o *Obs) IsErr() bool { return o.Err != nil }

// OK reports that a value (not an error) was produced.
func (o *Obs) OK() bool {
	return o.Cutoff == "" && o.Panic == "" && o.ParseErr == "" && !o.NilVal && o.Err == nil
}

const (
	DefaultFuel  = 300000
	DefaultDepth = 20000
)

// Parse parses src through the real parser (which recovers its own panics).
func Parse(src, fileName string, wrap func(string) io.Reader) (prog *ast.Program, perr string, panicked string) {
	defer func() {
		if r := recover(); r != nil {
			panicked = fmt.Sprint(r)
		}
	}()
	var r io.Reader = strings.NewReader(src)
	if wrap != nil {
		r = wrap(src)
	}
	if fileName == "" {
		fileName = "<verif>"
	}
	p, err := parser.Parse(parser.NewReader(r, fileName))
	if err != nil {
		return nil, err.Error(), ""
	}
	if p == nil {
		return nil, "", "parser returned nil program and nil error"
	}
	return p, "", ""
}

// Tally of Run calls and of those whose source did not parse (process-wide; read by the
// framework to expose vacuous generators in the evidence).
var RunCount, ParseErrCount int

// Run parses and evaluates src in a fresh scope enclosed in the const env.
func (ip *Interp) Run(src string, opt Options) *Obs {
	o := &Obs{}
	prog, perr, pp := Parse(src, opt.FileName, opt.Reader)
	RunCount++
	if perr != "" {
		ParseErrCount++
	}
	if pp != "" {
		o.Panic = "parse: " + pp
		return o
	}
	if perr != "" {
		o.ParseErr = perr
		return o
	}
	o.Program = prog
	return ip.EvalNode(prog, opt, o)
}

// EvalNode evaluates an already parsed node.
func (ip *Interp) EvalNode(node ast.Node, opt Options, o *Obs) (res *Obs) {
	if o == nil {
		o = &Obs{}
	}
	res = o
	var buf *bytes.Buffer
	out := opt.Stdout
	if out == nil {
		buf = &bytes.Buffer{}
		out = buf
	}
	in := opt.Stdin
	if in == nil {
		in = strings.NewReader("")
	}
	if !opt.NoInjectIO {
		ip.Const.InjectIO(in, out)
	}
	env := opt.Env
	if env == nil {
		env = object.NewEnclosedEnv(ip.Const)
	}
	o.Env = env

	fuel := opt.Fuel
	if fuel == 0 {
		fuel = DefaultFuel
	}
	maxDepth := opt.Depth
	if maxDepth == 0 {
		maxDepth = DefaultDepth
	}
	var count int64
	depth := 0
	mon := &evaluator.VerifMonitor{
		Enter: func(n ast.Node, e *object.Env) {
			count++
			depth++
			if fuel > 0 && count > fuel {
				panic(Cutoff{"fuel"})
			}
			if depth > maxDepth {
				panic(Cutoff{"depth"})
			}
			if opt.Events != nil {
				opt.Events(fmt.Sprintf("%T", n), n)
			}
		},
		Leave: func(n ast.Node) { depth-- },
	}
	prev := evaluator.SetVerifMonitor(mon)
	defer func() {
		evaluator.SetVerifMonitor(prev)
		o.Evals = count
		if buf != nil {
			o.Stdout = buf.String()
		}
		if r := recover(); r != nil {
			if c, ok := r.(Cutoff); ok {
				o.Cutoff = c.Reason
				return
			}
			o.Panic = fmt.Sprint(r)
			o.PanicStk = string(debug.Stack())
		}
	}()
	v := evaluator.Eval(node, env)
	o.setVal(v)
	return o
}

func (o *Obs) setVal(v object.PanObject) {
	if v == nil {
		o.NilVal = true
		return
	}
	o.Val = v
	o.Type = string(v.Type())
	if e, ok := v.(*object.PanErr); ok {
		o.Err = e
		o.ErrKind = e.Kind()
		o.ErrMsg = e.Msg
		o.Stack = e.StackTrace
		o.Inspect = e.Inspect()
		return
	}
	o.Inspect = SafeInspect(v)
}

// SafeInspect calls Inspect() and turns a panic into a marker string.
func SafeInspect(v object.PanObject) (s string) {
	defer func() {
		if r := recover(); r != nil {
			s = "<<Inspect panicked: " + fmt.Sprint(r) + ">>"
		}
	}()
	return v.Inspect()
}

// PanicSite extracts the top /repo frames from a recovered panic stack,
// used to de-duplicate panics by site.
func PanicSite(stk string, n int) string {
	lines := strings.Split(stk, "\n")
	var sites []string
	for i := 0; i+1 < len(lines); i++ {
		l := lines[i]
		if !strings.HasPrefix(l, "github.com/Syuparn/pangaea/") && !strings.HasPrefix(l, "github.com/macrat/simplexer") {
			continue
		}
		fn := l
		if k := strings.LastIndex(fn, "("); k > 0 {
			fn = fn[:k]
		}
		fn = strings.TrimPrefix(fn, "github.com/Syuparn/pangaea/")
		if strings.Contains(fn, "verifEnter") || strings.Contains(fn, "verifLeave") {
			continue
		}
		// collapse closure suffixes: props.strProps.func12 stays as is (identifies the prop)
		sites = append(sites, fn)
		if len(sites) >= n {
			break
		}
	}
	return strings.Join(sites, "<")
}

// Template is a pre-parsed program evaluated many times with different bindings.
type Template struct {
	Src  string
	Prog *ast.Program
}

// MustTemplate parses src once; it panics if the unchanged grammar rejects it
// (reported by the worker as a harness failure, not as a property verdict).
func MustTemplate(src string) *Template {
	p, perr, pp := Parse(src, "<tmpl>", nil)
	if p == nil {
		panic("template does not parse: " + src + " :: " + perr + pp)
	}
	return &Template{Src: src, Prog: p}
}

// TryTemplate parses src once, returning nil when it does not parse.
func TryTemplate(src string) *Template {
	p, _, _ := Parse(src, "<tmpl>", nil)
	if p == nil {
		return nil
	}
	return &Template{Src: src, Prog: p}
}

// EvalT evaluates a template in a fresh scope holding the bindings. Host panics are
// recovered into Obs.Panic; the fuel monitor is installed only when fuel != 0.
func (ip *Interp) EvalT(t *Template, bind map[string]object.PanObject, fuel int64) *Obs {
	env := object.NewEnclosedEnv(ip.Const)
	for k, v := range bind {
		env.Set(object.GetSymHash(k), v)
	}
	if fuel != 0 {
		return ip.EvalNode(t.Prog, Options{Env: env, Fuel: fuel}, nil)
	}
	o := &Obs{Env: env}
	var buf bytes.Buffer
	ip.Const.InjectIO(strings.NewReader(""), &buf)
	func() {
		defer func() {
			if r := recover(); r != nil {
				o.Panic = fmt.Sprint(r)
				o.PanicStk = string(debug.Stack())
			}
		}()
		o.setVal(evaluator.Eval(t.Prog, env))
	}()
	o.Stdout = buf.String()
	return o
}
